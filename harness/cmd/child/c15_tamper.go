package main

// C15 — tampered honest runs: one family per individual check of
// (*PairShuffle).Verify.
//
// The harness runs the complete honest prover algorithm of shuffle/pair.go
// (re-implemented here so that every secret a, u, w, gamma, tau0 is at hand)
// for a TRUE shuffle (pi, beta) with honest output (Xbar0, Ybar0). It then
// claims an output that is not a shuffle and adjusts as little of the transcript
// as needed so that exactly one check of the verifier is violated:
//
//	phi1    Xbar_j += d·G                                   only (31)+(34) fails
//	phi2    Ybar_j += d·G                                   only (32)+(35) fails
//	eq33    (Xbar_j,Ybar_j) *= s,  sigma_j /= s              only (33)@j fails
//	eq33pair two slots j, j'=j+1: sigma_j /= s, sigma_j' += sigma_j - sigma_j/s (the SUM of the responses is kept),
//	          slot j *= s, slot j' *= sigma_j'(old)/sigma_j'(new)      only (33)@j and (33)@j' fail, their sum holds
//	bindY   … and D_j = sigma_j·Gamma − W_j                 only simple.Y_j == C_j+lambda·D_j fails
//	bindX   … and simple.Y_j = C_j+lambda·D_j,
//	          simple.X_pi(j) = simple.Y_j / gamma             only simple.X_pi(j) == A+lambda·B fails
//	simple  … simple.Y_j bound, simple.X bound               only equation E_p of the embedded simple
//	                                                         shuffle fails (p chosen, simpleCutProver)
//
// (sigma_j·Xbar_j is unchanged by the scaling, so (31),(32),(34),(35) keep
// holding.) The claimed output has slot j multiplied by s != 1, which the
// ground-truth oracle confirms not to be a re-encryption permutation. A verifier
// that drops or weakens any single check accepts the corresponding family.
// For sequence shuffles slot j of every sequence is scaled, which scales slot j
// of the consolidated output of GetSequenceVerifiable.

import (
	"fmt"

	"go.dedis.ch/kyber/v4"
	"go.dedis.ch/kyber/v4/proof"
	"go.dedis.ch/kyber/v4/shuffle"

	"verif/internal/gen"
	"verif/internal/mon"
)

var c15TamperModes = []string{"eq33", "bindY", "bindX", "simple", "phi1", "phi2", "eq33pair"}

// tamperProver is the honest Neff prover for (pi, beta) on (X, Y) with the
// transcript adjustments of `mode` for slot jj and scale sc.
func (j *c15J) tamperProver(G, H kyber.Point, X, Y []kyber.Point, pi []int, beta []kyber.Scalar, mode string, jj int, sc kyber.Scalar, p int) proof.Prover {
	s := j.s
	k := len(X)
	piinv := make([]int, k)
	for i := range pi {
		piinv[pi[i]] = i
	}
	scaled := mode == "eq33" || mode == "bindY" || mode == "bindX" || mode == "simple"
	return func(ctx proof.ProverContext) error {
		gamma, tau0 := j.nz(), j.rs()
		a, u, w := make([]kyber.Scalar, k), make([]kyber.Scalar, k), make([]kyber.Scalar, k)
		for i := 0; i < k; i++ {
			a[i], u[i], w[i] = j.rs(), j.rs(), j.rs()
		}
		p1 := &c15Ega1{Gamma: s.Point().Mul(gamma, G), Lambda1: s.Point().Null(), Lambda2: s.Point().Null()}
		wb := tau0.Clone()
		for i := 0; i < k; i++ {
			p1.A = append(p1.A, s.Point().Mul(a[i], G))
			p1.C = append(p1.C, s.Point().Mul(s.Scalar().Mul(gamma, a[pi[i]]), G))
			p1.U = append(p1.U, s.Point().Mul(u[i], G))
			p1.W = append(p1.W, s.Point().Mul(s.Scalar().Mul(gamma, w[i]), G))
			wb = s.Scalar().Add(wb, s.Scalar().Mul(w[i], beta[pi[i]]))
			wu := s.Scalar().Sub(w[piinv[i]], u[i])
			p1.Lambda1 = s.Point().Add(p1.Lambda1, s.Point().Mul(wu, X[i]))
			p1.Lambda2 = s.Point().Add(p1.Lambda2, s.Point().Mul(wu, Y[i]))
		}
		p1.Lambda1 = s.Point().Add(p1.Lambda1, s.Point().Mul(wb, G))
		p1.Lambda2 = s.Point().Add(p1.Lambda2, s.Point().Mul(wb, H))
		if err := ctx.Put(p1); err != nil {
			return err
		}
		v2 := &c15Ega2{Zrho: make([]kyber.Scalar, k)}
		if err := ctx.PubRand(v2); err != nil {
			return err
		}
		b := make([]kyber.Scalar, k)
		for i := 0; i < k; i++ {
			b[i] = s.Scalar().Sub(v2.Zrho[i], u[i])
		}
		sigma := make([]kyber.Scalar, k)
		dD := make([]kyber.Scalar, k) // D_i = dD_i·G
		for i := 0; i < k; i++ {
			sigma[i] = s.Scalar().Add(w[i], b[pi[i]])
			dD[i] = s.Scalar().Mul(gamma, b[pi[i]])
		}
		if scaled {
			sigma[jj] = s.Scalar().Div(sigma[jj], sc)
		}
		if mode == "eq33pair" {
			j2 := (jj + 1) % k
			old0, old1 := sigma[jj], sigma[j2]
			sigma[jj] = s.Scalar().Div(old0, sc)
			sigma[j2] = s.Scalar().Add(old1, s.Scalar().Sub(old0, sigma[jj]))
			j.pairScale = nil
			if !sigma[j2].Equal(s.Scalar().Zero()) {
				j.pairScale = s.Scalar().Div(old1, sigma[j2])
			}
		}
		if mode == "bindY" || mode == "bindX" || mode == "simple" {
			dD[jj] = s.Scalar().Mul(gamma, s.Scalar().Sub(sigma[jj], w[jj]))
		}
		p3 := &c15Ega3{}
		for i := 0; i < k; i++ {
			p3.D = append(p3.D, s.Point().Mul(dD[i], G))
		}
		if err := ctx.Put(p3); err != nil {
			return err
		}
		v4 := &c15Ega4{}
		if err := ctx.PubRand(v4); err != nil {
			return err
		}
		lambda := v4.Zlambda
		r := make([]kyber.Scalar, k)
		sv := make([]kyber.Scalar, k)
		for i := 0; i < k; i++ {
			r[i] = s.Scalar().Add(a[i], s.Scalar().Mul(lambda, b[i]))
		}
		tau := s.Scalar().Neg(tau0)
		for i := 0; i < k; i++ {
			sv[i] = s.Scalar().Mul(gamma, r[pi[i]])
			tau = s.Scalar().Add(tau, s.Scalar().Mul(b[i], beta[i]))
		}
		if err := ctx.Put(&c15Ega5{Zsigma: sigma, Ztau: tau}); err != nil {
			return err
		}
		switch mode {
		case "bindX", "simple":
			// dlog of C_jj + lambda·D_jj
			sv[jj] = s.Scalar().Add(s.Scalar().Mul(gamma, a[pi[jj]]), s.Scalar().Mul(lambda, dD[jj]))
			if mode == "bindX" {
				r[pi[jj]] = s.Scalar().Div(sv[jj], gamma)
			}
		}
		if mode == "simple" {
			return (func(proof.ProverContext) error)(j.simpleCutProver(G, gamma, r, sv, p))(ctx)
		}
		ss := new(shuffle.SimpleShuffle).Init(s, k)
		return ss.Prove(G, gamma, r, sv, j.st, ctx)
	}
}

func c15PlanTamper(r *mon.R, e *c15Env, plan *gen.Rng, add func(c15Job)) {
	tj := func(k, nq int, mode string, ti, tp int) {
		add(c15Job{env: e, kind: "tamper", label: "tamper", k: k, nq: nq, arg: mode, ti: ti, tp: tp, gnil: (k+ti)%2 == 0})
	}
	for _, k := range []int{2, 3} {
		tj(k, 0, "none", -1, 0)
		for ti := 0; ti < k; ti++ {
			for _, m := range []string{"eq33", "bindY", "bindX", "phi1", "phi2"} {
				tj(k, 0, m, ti, 0)
			}
		}
		for tp := 0; tp < 2*k; tp++ {
			tj(k, 0, "simple", tp%k, tp)
		}
		for ti := 0; ti < k; ti++ {
			tj(k, 0, "eq33pair", ti, 0)
		}
	}
	for _, k := range []int{5, 8} {
		tj(k, 0, "eq33pair", 0, 0)
		tj(k, 0, "eq33pair", k-1, 0)
		for _, ti := range []int{0, k - 1, -1} {
			for _, m := range []string{"eq33", "bindY", "bindX"} {
				tj(k, 0, m, ti, 0)
			}
		}
		tj(k, 0, "phi1", -1, 0)
		tj(k, 0, "phi2", -1, 0)
		for _, tp := range []int{0, 1, k - 1, k, 2*k - 2, 2*k - 1} {
			tj(k, 0, "simple", -1, tp)
		}
	}
	// sequences
	for _, nq := range []int{2, 3} {
		for _, k := range []int{2, 3} {
			for _, m := range []string{"eq33", "bindY", "bindX"} {
				tj(k, nq, m, 0, 0)
				tj(k, nq, m, k-1, 0)
			}
			tj(k, nq, "simple", -1, 0)
			tj(k, nq, "simple", -1, k)
			tj(k, nq, "simple", -1, 2*k-1)
		}
	}
	if r.Thorough() {
		for i := 0; i < 700; i++ {
			k := 2 + plan.IntN(11)
			if i%12 == 0 {
				k = 13 + plan.IntN(28)
			}
			nq := 0
			if i%5 == 0 {
				nq = 1 + plan.IntN(4)
			}
			tj(k, nq, c15TamperModes[i%len(c15TamperModes)], -1, plan.IntN(2*k))
		}
	}
}

func (j *c15J) jobTamper(jb c15Job) {
	s := j.s
	k, nq, mode := jb.k, jb.nq, jb.arg
	jj := jb.ti
	if jj < 0 {
		jj = j.rng.IntN(k)
	}
	scheme := "pair"
	if nq > 0 {
		scheme = "sequences"
	}
	in := j.inst(k, "random", jb.gnil)
	pi := j.rng.Perm(k)
	nseq := nq
	if nseq == 0 {
		nseq = 1
	}
	X := make([][]kyber.Point, nseq)
	Y := make([][]kyber.Point, nseq)
	Xb := make([][]kyber.Point, nseq)
	Yb := make([][]kyber.Point, nseq)
	betas := make([][]kyber.Scalar, nseq)
	X[0], Y[0] = in.X, in.Y
	for q := 0; q < nseq; q++ {
		if q > 0 {
			X[q], Y[q] = j.pairs(in, k, "random")
		}
		betas[q] = j.betas(k, false)
		Xb[q], Yb[q] = j.reenc(in, X[q], Y[q], pi, betas[q])
	}
	// consolidated honest statement (for a pair shuffle: the statement itself)
	e := []kyber.Scalar{s.Scalar().One()}
	xu, yu := X[0], Y[0]
	beta := betas[0]
	if nq > 0 {
		e = make([]kyber.Scalar, nq)
		for q := range e {
			e[q] = j.nz()
		}
		xu, yu, _, _ = shuffle.GetSequenceVerifiable(j.s, j.cpss(X), j.cpss(Y), j.cpss(Xb), j.cpss(Yb), c15CloneSs(e))
		beta = make([]kyber.Scalar, k)
		for i := 0; i < k; i++ {
			beta[i] = s.Scalar().Zero()
			for q := 0; q < nq; q++ {
				beta[i] = s.Scalar().Add(beta[i], s.Scalar().Mul(e[q], betas[q][i]))
			}
		}
		j.r.Op("shuffle.GetSequenceVerifiable")
	}
	// the claimed (tampered) output
	var sc kyber.Scalar
	var prf []byte
	for {
		switch j.rng.IntN(3) {
		case 0:
			sc = j.si(2)
		case 1:
			sc = j.si(-1)
		default:
			sc = j.nz()
		}
		if !sc.Equal(s.Scalar().One()) {
			break
		}
	}
	{
		var err error
		// the transcript depends on (X, Y, pi, beta) and the adjustments only, not on the claimed output
		prf, err = proof.HashProve(j.s, "PairShuffle", j.tamperProver(in.G, in.H, xu, yu, pi, beta, mode, jj, sc, jb.tp))
		if err != nil {
			panic("harness: tampering prover failed: " + err.Error())
		}
	}
	cl2 := func(p [][]kyber.Point) [][]kyber.Point {
		o := make([][]kyber.Point, len(p))
		for i := range p {
			o[i] = c15Dup(p[i])
		}
		return o
	}
	Xc, Yc := cl2(Xb), cl2(Yb)
	switch mode {
	case "none":
	case "phi1":
		d := j.nz()
		Xc[0][jj] = s.Point().Add(Xc[0][jj], s.Point().Mul(d, in.G))
	case "phi2":
		d := j.nz()
		Yc[0][jj] = s.Point().Add(Yc[0][jj], s.Point().Mul(d, in.G))
	default:
		for q := range Xc {
			Xc[q][jj] = s.Point().Mul(sc, Xc[q][jj])
			Yc[q][jj] = s.Point().Mul(sc, Yc[q][jj])
		}
		if mode == "eq33pair" {
			if j.pairScale == nil {
				j.r.NoteAdd("tampered_transcripts_not_constructible(sigma'=0)", 1)
				return
			}
			j2 := (jj + 1) % k
			for q := range Xc {
				Xc[q][j2] = s.Point().Mul(j.pairScale, Xc[q][j2])
				Yc[q][j2] = s.Point().Mul(j.pairScale, Yc[q][j2])
			}
		}
	}
	stmtFalse := !j.isShuffle(in.hS, X, Y, Xc, Yc)
	cxd, cyd := Xc[0], Yc[0]
	if nq > 0 {
		_, _, cxd, cyd = shuffle.GetSequenceVerifiable(j.s, j.cpss(X), j.cpss(Y), j.cpss(Xc), j.cpss(Yc), c15CloneSs(e))
	}
	st := &c15Stmt{G: in.aG(), H: in.H, X: xu, Y: yu, Xb: cxd, Yb: cyd, name: "PairShuffle"}
	j.r.Op("proof.HashProve", "proof.HashVerify", "shuffle.Verifier", "shuffle.PairShuffle.Verify", "shuffle.SimpleShuffle.Verify")
	ref := j.refPair(st, prf)
	pos := "middle"
	switch {
	case jj == 0:
		pos = "first"
	case jj == k-1:
		pos = "last"
	}
	desc := fmt.Sprintf("|nq=%d|k=%d|%s|j=%d|p=%d|gnil=%v", nq, k, mode, jj, jb.tp, jb.gnil)
	det := func() map[string]any {
		d := st.detail()
		d["k"] = k
		d["nq"] = nq
		d["pi"] = c15Perm(pi)
		d["beta"] = c15HexSs(beta)
		d["tamper"] = mode
		d["tampered_slot_j"] = jj
		d["scale_s"] = c15HexS(sc)
		d["simple_shuffle_equation_broken_p"] = jb.tp
		d["decryption_key_h"] = c15HexS(in.hS) + " (H = h*G; plaintext of a pair is Y - h*X)"
		d["reference_check_of_transcript"] = ref.String()
		d["construction"] = "honest prover run for the true shuffle (pi,beta); claimed output has slot j multiplied by s (phi1/phi2: shifted by d*G); transcript adjusted as described in c15_tamper.go so that only the named check fails"
		if nq > 0 {
			d["e"] = c15HexSs(e)
			d["note"] = "X,Y,Xbar,Ybar are the consolidated vectors of GetSequenceVerifiable; slot j of every sequence was scaled"
		}
		return d
	}
	verr, ok := j.verify(scheme, "cheating-prover/tampered-honest-run+"+mode, st.name, j.pairVerifier(st.G, st.H, st.X, st.Y, st.Xb, st.Yb), prf, det)
	if !ok {
		return
	}
	if mode == "none" {
		// control: the harness prover's untampered transcript is a valid proof of a true statement
		j.r.Eval(scheme+"/harness-prover/true-statement", j.id+desc, true)
		if !ref.all() {
			panic("harness: untampered transcript of the harness prover fails the reference verifier: " + ref.String())
		}
		if verr != nil {
			d := det()
			d["error"] = verr.Error()
			d["proof"] = c15HexProof(prf)
			j.violation("C15/"+scheme+"/harness-prover/true-statement/rejected", "a transcript satisfying every check of Neff's verifier for a true statement was rejected: "+verr.Error(), d)
		}
		return
	}
	if !stmtFalse {
		j.r.Eval(scheme+"/cheating-prover/tampered-honest-run/statement-true-skipped", j.id+desc, false)
		return
	}
	what := map[string]string{"eq33": "33", "eq33pair": "33", "bindY": "bY", "bindX": "bX", "simple": "simple", "phi1": "34", "phi2": "35"}[mode]
	idx := -1
	class := scheme + "/cheating-prover/tampered-honest-run/only-" + mode + "-fails"
	switch mode {
	case "eq33", "bindY":
		idx = jj
		class += "/index-" + pos
	case "bindX":
		idx = pi[jj]
		switch {
		case idx == 0:
			class += "/index-first"
		case idx == k-1:
			class += "/index-last"
		default:
			class += "/index-middle"
		}
	case "simple":
		idx = jb.tp
		switch {
		case idx == 0:
			class += "/E_0"
		case idx < k:
			class += "/E_1..k-1"
		case idx < 2*k-1:
			class += "/E_k..2k-2"
		default:
			class += "/E_2k-1"
		}
	}
	if k == 2 {
		class += "/k=2"
	}
	intended := ref.onlyFails(what, idx)
	if mode == "eq33pair" {
		// exactly the two per-slot checks (33) fail, nothing else
		intended = ref.err == nil && !ref.eq33 && ref.eq34 && ref.eq35 && ref.simple && ref.bX && ref.bY && len(ref.f33) == 2
		class += "/two-coordinated-slots"
	}
	j.r.Eval(class, j.id+desc, intended)
	if !intended {
		j.r.NoteAdd("tampered_transcripts_not_as_intended", 1)
		j.r.Note("tampered_transcript_not_as_intended_example", map[string]any{"job": j.id, "class": class, "ref": ref.String()})
	}
	if verr == nil {
		j.r.NoteAdd("tampered_transcripts_accepted", 1)
		d := det()
		d["proof"] = c15HexProof(prf)
		d["ground_truth"] = "with the decryption key h the harness checked that no permutation pi makes every (Xbar_i,Ybar_i) a re-encryption of (X_pi(i),Y_pi(i))"
		j.violation("C15/"+scheme+"/cheating-prover/tampered-honest-run+"+mode+"/accepted",
			"tampered honest run ACCEPTED for an output that is not a permutation of re-encryptions (the only check of Neff's verifier it violates: "+mode+"; transcript: "+ref.String()+")", d)
	} else {
		j.r.NoteAdd("tampered_transcripts_rejected", 1)
	}
	j.sample(scheme+"/cheating-prover/tampered-honest-run+"+mode, map[string]any{"class": class, "env": j.env.name, "k": k, "nq": nq, "slot": jj, "reference_check_of_transcript": ref.String(), "verdict": c15Err(verr)})
}

func c15CloneSs(e []kyber.Scalar) []kyber.Scalar {
	o := make([]kyber.Scalar, len(e))
	for i := range e {
		o[i] = e[i].Clone()
	}
	return o
}
