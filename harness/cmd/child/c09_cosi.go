package main

import (
	"crypto/cipher"
	"crypto/sha256"
	"crypto/sha512"
	"fmt"
	"hash"
	"math/big"

	"go.dedis.ch/kyber/v4"
	"go.dedis.ch/kyber/v4/group/edwards25519"
	"go.dedis.ch/kyber/v4/group/p256"
	"go.dedis.ch/kyber/v4/sign"
	"go.dedis.ch/kyber/v4/sign/cosi"

	"verif/internal/gen"
	"verif/internal/groups"
	"verif/internal/mon"
)

// c09CosiSuite is a cosi.Suite with a seeded random stream.
type c09CosiSuite struct {
	kyber.Group
	newHash func() hash.Hash
	stream  cipher.Stream
}

func (s *c09CosiSuite) Hash() hash.Hash             { return s.newHash() }
func (s *c09CosiSuite) RandomStream() cipher.Stream { return s.stream }

func c09NewCosiSuite(name string, stream cipher.Stream) *c09CosiSuite {
	switch name {
	case "ed25519-sha512":
		return &c09CosiSuite{Group: edwards25519.NewBlakeSHA256Ed25519(), newHash: sha512.New, stream: stream}
	case "p256-sha256":
		return &c09CosiSuite{Group: p256.NewBlakeSHA256P256(), newHash: sha256.New, stream: stream}
	}
	panic("harness: unknown cosi suite " + name)
}

type c09CosiCtx struct {
	r      *mon.R
	cs     string
	job    string
	n      int
	q      *big.Int
	g      *groups.G // helper over a private group instance (oracle side)
	as     []*big.Int
	pubEnc [][]byte
	lenV   int
	lenS   int
	dlog   map[string]*big.Int // encoding of a commitment -> its discrete log (harness knowledge)
}

func (c *c09CosiCtx) suite(rng *gen.Rng) *c09CosiSuite { return c09NewCosiSuite(c.cs, rng.Stream()) }

func (c *c09CosiCtx) roster(enc [][]byte) []kyber.Point {
	out := make([]kyber.Point, len(enc))
	for i := range enc {
		out[i] = c09MustDec(c.g.Grp, enc[i])
	}
	return out
}

func (c *c09CosiCtx) mulBase(x *big.Int) kyber.Point {
	return c.g.Grp.Point().Mul(c.g.ScalarFromBig(x), nil)
}

// scalarBytesToBig interprets b the way Scalar.SetBytes does (declared byte
// order, reduced mod q) — in math/big.
func (c *c09CosiCtx) scalarBytesToBig(b []byte) (v *big.Int, canonical bool) {
	t := c09Cp(b)
	if c.g.Grp.Scalar().ByteOrder() == kyber.LittleEndian {
		for i, j := 0, len(t)-1; i < j; i, j = i+1, j-1 {
			t[i], t[j] = t[j], t[i]
		}
	}
	x := new(big.Int).SetBytes(t)
	canonical = x.Cmp(c.q) < 0
	return x.Mod(x, c.q), canonical
}

// challenge computes H(V ‖ A ‖ m) as a residue, from bytes.
func (c *c09CosiCtx) challenge(vbytes, abytes, msg []byte) *big.Int {
	s := c09NewCosiSuite(c.cs, nil)
	h := s.Hash()
	h.Write(vbytes)
	h.Write(abytes)
	h.Write(msg)
	return groups.ScalarToBig(s.Scalar().SetBytes(h.Sum(nil)))
}

type c09CosiRun struct {
	P    c09Pattern
	msg  []byte
	Venc []byte
	v    *big.Int // discrete log of V as aggregated by the leader
	r    *big.Int
	Z    []byte
	sig  []byte
}

// protocol runs the four CoSi phases for the participants P with the real
// package functions; every party has its own suite, roster copy and mask.
// cheat selects a deviation of one participant / of the leader.
func (c *c09CosiCtx) protocol(rng *gen.Rng, P c09Pattern, msg []byte, cheat string) *c09CosiRun {
	r := c.r
	idx := P.idx()
	bad := -1
	if cheat != "" {
		bad = idx[rng.IntN(len(idx))]
	}
	type party struct {
		i  int
		s  *c09CosiSuite
		v  kyber.Scalar
		vb *big.Int
		V  []byte
		z  []byte
	}
	var ps []*party
	desc := fmt.Sprintf("%s|%s|%s|%s", c.cs, c.job, P, cheat)
	for _, i := range idx {
		p := &party{i: i, s: c.suite(rng)}
		v, V := cosi.Commit(p.s)
		p.v, p.vb, p.V = v, groups.ScalarToBig(v), groups.Enc(V)
		r.Eval("cosi/commit-is-v·B", desc+fmt.Sprint(i), true)
		if !V.Equal(c.mulBase(p.vb)) {
			r.Violation("C09/cosi/"+c.cs+"/Commit/not-v·B", "cosi.Commit returned V != v·B", map[string]any{"suite": c.cs, "v": p.vb.Text(16), "V": mon.Hex(p.V)})
		}
		m, err := cosi.NewMask(p.s, c.roster(c.pubEnc), c09MustDec(c.g.Grp, c.pubEnc[i]))
		if err != nil {
			panic("cosi.NewMask(myKey) failed: " + err.Error())
		}
		p.z = m.Mask()
		ps = append(ps, p)
	}
	// leader: aggregate commitments and masks
	L := c.suite(rng)
	var Vs []kyber.Point
	var zs [][]byte
	vsum := new(big.Int)
	for _, p := range ps {
		zs = append(zs, c09Cp(p.z))
		if cheat == "leader-drops-one-commitment" && p.i == bad {
			Vs = append(Vs, c.g.Grp.Point().Null())
			continue
		}
		Vs = append(Vs, c09MustDec(c.g.Grp, p.V))
		vsum.Add(vsum, p.vb)
	}
	vsum.Mod(vsum, c.q)
	V, Z, err := cosi.AggregateCommitments(L, Vs, zs)
	if err != nil {
		panic("cosi.AggregateCommitments failed: " + err.Error())
	}
	r.Eval("cosi/aggregate-commitments", desc, true)
	if !V.Equal(c.mulBase(vsum)) || string(Z) != string(P.bytes()) {
		r.Violation("C09/cosi/"+c.cs+"/AggregateCommitments/wrong", "aggregate commitment is not Σ V_i or aggregate mask is not the OR of the participants' masks",
			map[string]any{"suite": c.cs, "pattern": P.String(), "Z": mon.Hex(Z), "V": mon.Hex(groups.Enc(V)), "v_sum": vsum.Text(16)})
	}
	Venc := groups.Enc(V)
	c.dlog[string(Venc)] = vsum
	lm, err := cosi.NewMask(L, c.roster(c.pubEnc), nil)
	if err != nil {
		panic("cosi.NewMask failed: " + err.Error())
	}
	if err := lm.SetMask(c09Cp(Z)); err != nil {
		panic("cosi SetMask failed: " + err.Error())
	}
	// participants: challenge and response
	var resps []kyber.Scalar
	for k, p := range ps {
		var m *cosi.Mask
		if k%2 == 0 {
			m, err = cosi.NewMask(p.s, c.roster(c.pubEnc), nil)
		} else {
			m, err = cosi.NewMask(p.s, c.roster(c.pubEnc), c09MustDec(c.g.Grp, c.pubEnc[p.i]))
		}
		if err != nil {
			panic("cosi.NewMask failed: " + err.Error())
		}
		if err := m.SetMask(c09Cp(Z)); err != nil {
			panic("cosi SetMask failed: " + err.Error())
		}
		A := m.AggregatePublic
		cmsg := c09Cp(msg)
		priv := new(big.Int).Set(c.as[p.i])
		if p.i == bad {
			switch cheat {
			case "one-response-with-wrong-private-key":
				priv.Add(priv, big.NewInt(1))
			case "one-challenge-over-another-message":
				cmsg = append(cmsg, 1)
			case "one-challenge-over-full-roster-key":
				fm, _ := cosi.NewMask(p.s, c.roster(c.pubEnc), nil)
				all := make(c09Pattern, c.n)
				for i := range all {
					all[i] = true
				}
				_ = fm.SetMask(all.bytes())
				A = fm.AggregatePublic
				if P.count() == c.n { // no difference possible: fall back to a foreign key
					A = c.mulBase(big.NewInt(7))
				}
			}
		}
		ch, err := cosi.Challenge(p.s, c09MustDec(c.g.Grp, Venc), A, cmsg)
		if err != nil {
			panic("cosi.Challenge failed: " + err.Error())
		}
		rs, err := cosi.Response(p.s, c.g.ScalarFromBig(priv), p.v, ch)
		if err != nil {
			panic("cosi.Response failed: " + err.Error())
		}
		if cheat == "one-response-missing" && p.i == bad {
			continue
		}
		resps = append(resps, rs)
	}
	if resps == nil {
		resps = []kyber.Scalar{}
	}
	rr, err := cosi.AggregateResponses(L, resps)
	if err != nil {
		panic("cosi.AggregateResponses failed: " + err.Error())
	}
	sig, err := cosi.Sign(L, V, rr, lm)
	if err != nil {
		panic("cosi.Sign failed: " + err.Error())
	}
	run := &c09CosiRun{P: P.clone(), msg: c09Cp(msg), Venc: Venc, v: vsum, r: groups.ScalarToBig(rr), Z: c09Cp(Z), sig: sig}
	if cheat == "" {
		// reference: r = Σv + H(V‖A‖m)·Σa ; signature layout V ‖ r ‖ Z
		a := c.aggSecret(c.as, P)
		ch := c.challenge(Venc, groups.Enc(c.mulBase(a)), msg)
		want := new(big.Int).Mul(ch, a)
		want.Add(want, vsum).Mod(want, c.q)
		r.Eval("cosi/response-is-v+c·a", desc, true)
		if want.Cmp(run.r) != 0 {
			r.Violation("C09/cosi/"+c.cs+"/Response/not-v+c·a", "aggregate response differs from Σv + H(V‖A‖m)·Σa (math/big)", map[string]any{"suite": c.cs, "pattern": P.String(), "got": run.r.Text(16), "want": want.Text(16)})
		}
		r.Eval("cosi/signature-layout", desc, true)
		wantSig := append(append(c09Cp(Venc), groups.Enc(rr)...), Z...)
		if string(wantSig) != string(sig) || len(sig) != c.lenV+c.lenS+(c.n+7)/8 {
			r.Violation("C09/cosi/"+c.cs+"/Sign/layout", "cosi.Sign output is not V ‖ r ‖ Z", map[string]any{"suite": c.cs, "got": mon.Hex(sig), "want": mon.Hex(wantSig)})
		}
	}
	return run
}

func (c *c09CosiCtx) aggSecret(secrets []*big.Int, P c09Pattern) *big.Int {
	a := new(big.Int)
	for i, b := range P {
		if b && i < len(secrets) {
			a.Add(a, secrets[i])
		}
	}
	return a.Mod(a, c.q)
}

type c09Policy struct {
	name string
	p    cosi.Policy
	met  func(enabled, total int) bool
}

// judge presents (roster, msg, sig, policy) to cosi.Verify and compares with
// the verification equation evaluated on the harness's ground truth.
func (c *c09CosiCtx) judge(rng *gen.Rng, class string, rosterEnc [][]byte, secrets []*big.Int, msg, sig []byte, pol c09Policy, sub string) {
	r := c.r
	nR := len(rosterEnc)
	// ground truth
	want, demand, wellFormed := false, true, false
	why := ""
	func() {
		if len(sig) < c.lenV+c.lenS {
			why = "signature shorter than V‖r"
			return
		}
		vb, rb, zb := sig[:c.lenV], sig[c.lenV:c.lenV+c.lenS], sig[c.lenV+c.lenS:]
		Vp, err := c09Dec(c.g.Grp, vb)
		if err != nil {
			why = "V does not decode"
			return
		}
		if len(zb) < (nR+7)/8 {
			why = "mask shorter than the roster needs"
			return
		}
		wellFormed = true
		if len(zb) > (nR+7)/8 {
			demand = false
			why = "mask longer than the roster needs: nothing demanded"
			return
		}
		for i := nR; i < 8*len(zb); i++ {
			if zb[i/8]&(1<<uint(i%8)) != 0 {
				demand = false
				why = "stray mask bits beyond the roster: nothing demanded"
			}
		}
		Pp := c09PatternFromBytes(zb, nR)
		rp, canon := c.scalarBytesToBig(rb)
		if !canon {
			demand = false
			why = "non-canonical response encoding: nothing demanded"
		}
		a := c.aggSecret(secrets, Pp)
		ch := c.challenge(vb, groups.Enc(c.mulBase(a)), msg)
		eq := false
		if v, ok := c.dlog[string(groups.Enc(Vp))]; ok {
			// exponent form: r = v + c·a
			t := new(big.Int).Mul(ch, a)
			t.Add(t, v).Mod(t, c.q)
			eq = t.Cmp(rp) == 0
		} else {
			// group form: r·B = V + c·A
			lhs := c.mulBase(rp)
			rhs := c.g.Grp.Point().Add(Vp, c.mulBase(new(big.Int).Mod(new(big.Int).Mul(ch, a), c.q)))
			eq = lhs.Equal(rhs)
		}
		met := pol.met(Pp.count(), nR)
		want = eq && met
		if why == "" {
			why = fmt.Sprintf("equation holds=%v policy met=%v", eq, met)
		}
	}()
	var err error
	key := "C09/cosi/" + c.cs + "/Verify:" + class
	det := func() map[string]any {
		return map[string]any{"suite": c.cs, "job": c.job, "n": c.n, "case": sub, "class": class, "policy": pol.name, "secrets": c09BigHex(secrets),
			"roster": c09Hexes(rosterEnc), "msg": mon.Hex(msg), "sig": mon.Hex(sig), "ground_truth": why}
	}
	ok := r.Guard(key, det(), func() {
		err = cosi.Verify(c09NewCosiSuite(c.cs, rng.Stream()), c.roster(rosterEnc), c09Cp(msg), c09Cp(sig), pol.p)
	})
	if !ok {
		return
	}
	if !demand {
		r.NoteAdd("cosi_cases_without_demand("+class+")", 1)
		if err == nil {
			r.NoteAdd("cosi_cases_without_demand_accepted", 1)
		}
		return
	}
	r.Eval("cosi/"+class, c.cs+"|"+c.job+"|"+sub+"|"+pol.name, wellFormed)
	if (err == nil) != want {
		d := det()
		d["verify_error"] = fmt.Sprint(err)
		if want {
			r.Violation("C09/cosi/"+c.cs+"/Verify/rejected:"+class, "cosi.Verify rejected a collective signature that satisfies the verification equation for the masked signers and meets the policy ("+class+")", d)
		} else {
			r.Violation("C09/cosi/"+c.cs+"/Verify/accepted:"+class, "cosi.Verify accepted although "+why+" ("+class+")", d)
		}
	}
}

func c09CoSi(r *mon.R, j c09Job) {
	n := j.n
	rng := gen.New(r.Seed, "C09cosi"+j.cs, n*10000+j.idx)
	os := c09NewCosiSuite(j.cs, nil)
	c := &c09CosiCtx{r: r, cs: j.cs, job: fmt.Sprintf("cosi-n%d-%d", n, j.idx), n: n, dlog: map[string]*big.Int{}}
	c.q = new(big.Int).Set(os.Scalar().GroupOrder().ToBigInt())
	c.g = &groups.G{Name: j.cs, Grp: os.Group, Q: c.q}
	c.lenV, c.lenS = os.PointLen(), os.ScalarLen()
	r.Op("cosi.Commit", "cosi.AggregateCommitments", "cosi.AggregateMasks", "cosi.Challenge", "cosi.Response", "cosi.AggregateResponses", "cosi.Sign", "cosi.Verify",
		"cosi.NewMask(nil)", "cosi.NewMask(myKey)", "cosi.Mask.SetBit", "cosi.Mask.SetMask", "cosi.Mask.{Mask,CountEnabled,CountTotal,IndexEnabled,KeyEnabled,AggregatePublic}",
		"cosi.CompletePolicy", "cosi.ThresholdPolicy")

	seen := map[string]bool{}
	for len(c.as) < n {
		x := c09NonZero(rng, c.q)
		if len(c.as) == 0 && j.idx%4 == 3 {
			x = c09EdgeSecret(rng, c.q)
		}
		if seen[x.String()] {
			continue
		}
		seen[x.String()] = true
		c.as = append(c.as, x)
		c.pubEnc = append(c.pubEnc, groups.Enc(c.mulBase(x)))
	}
	c.dlog[string(groups.Enc(c.g.Grp.Point().Null()))] = new(big.Int)
	msg := c09Msg(rng)
	P, pkind := c09MakePattern(rng, n, j.idx)
	cnt := P.count()

	H := c.protocol(rng, P, msg, "")
	if j.idx < 4 {
		r.SampleClass("cosi:"+j.cs+":"+pkind, map[string]any{"scheme": "cosi", "suite": j.cs, "n": n, "pattern": P.String(), "kind": pkind, "msg": mon.Hex(msg), "sig": mon.Hex(H.sig)})
	}

	// ---- the honest signature under every policy
	thr := func(k int) c09Policy {
		return c09Policy{fmt.Sprintf("cosi.ThresholdPolicy(%d)", k), cosi.NewThresholdPolicy(k), func(e, t int) bool { return e >= k }}
	}
	complete := func(e, t int) bool { return e == t }
	pols := []c09Policy{{"nil(=complete)", nil, complete}, {"cosi.CompletePolicy", cosi.CompletePolicy{}, complete}}
	seenK := map[int]bool{}
	for _, k := range []int{0, 1, cnt - 1, cnt, cnt + 1, n, n + 1} {
		if k >= 0 && !seenK[k] {
			seenK[k] = true
			pols = append(pols, thr(k))
		}
	}
	for _, pol := range pols {
		cl := "policy/met"
		if !pol.met(cnt, n) {
			cl = "policy/not-met"
		}
		c.judge(rng, cl, c.pubEnc, c.as, msg, H.sig, pol, "honest")
	}
	lax := thr(1) // for the mutations the cryptographic check decides
	J := func(class string, msg, sig []byte, sub string) {
		c.judge(rng, class, c.pubEnc, c.as, msg, sig, lax, sub)
	}

	// ---- message
	J("message/minimally-different", c09NearMsg(rng, msg), H.sig, "near")
	J("message/unrelated", append(c09Msg(rng), 0xa5), H.sig, "other")
	if len(msg) > 0 {
		J("message/empty", []byte{}, H.sig, "emptymsg")
	}
	// ---- mask: every roster bit flipped, all set, all clear, stray bit, length changes
	off := c.lenV + c.lenS
	for i := 0; i < n; i++ {
		cl := "mask/non-participant-added"
		if P[i] {
			cl = "mask/participant-removed"
		}
		J(cl, msg, gen.FlipBit(H.sig, 8*off+i), fmt.Sprintf("bit%d", i))
	}
	{
		all := make(c09Pattern, n)
		for i := range all {
			all[i] = true
		}
		if cnt != n {
			J("mask/all-set", msg, append(c09Cp(H.sig[:off]), all.bytes()...), "allset")
		}
		J("mask/all-clear", msg, append(c09Cp(H.sig[:off]), make([]byte, (n+7)/8)...), "allclear")
		if n%8 != 0 {
			J("mask/stray-bit-beyond-roster", msg, gen.FlipBit(H.sig, 8*off+n+rng.IntN(8-n%8)), "stray")
		}
		J("malformed/mask-byte-dropped", msg, H.sig[:len(H.sig)-1], "maskshort")
		J("malformed/extra-mask-byte", msg, append(c09Cp(H.sig), 0), "masklong")
		J("malformed/cut-inside-r", msg, H.sig[:c.lenV+c.lenS/2], "cutr")
		J("malformed/cut-inside-V", msg, H.sig[:c.lenV/2], "cutV")
		J("malformed/empty", msg, []byte{}, "emptysig")
	}
	// ---- commitment V
	rebuild := func(V []byte, rr *big.Int, Z []byte) []byte {
		out := c09Cp(V)
		out = append(out, groups.Enc(c.g.ScalarFromBig(rr))...)
		return append(out, Z...)
	}
	{
		Vp := c09MustDec(c.g.Grp, H.Venc)
		neg := c.g.Grp.Point().Neg(Vp)
		c.dlog[string(groups.Enc(neg))] = new(big.Int).Mod(new(big.Int).Neg(H.v), c.q)
		J("commitment/negated", msg, rebuild(groups.Enc(neg), H.r, H.Z), "negV")
		plus := c.g.Grp.Point().Add(Vp, c.mulBase(big.NewInt(1)))
		c.dlog[string(groups.Enc(plus))] = new(big.Int).Mod(new(big.Int).Add(H.v, big.NewInt(1)), c.q)
		J("commitment/plus-base", msg, rebuild(groups.Enc(plus), H.r, H.Z), "V+B")
		J("commitment/identity", msg, rebuild(groups.Enc(c.g.Grp.Point().Null()), H.r, H.Z), "V=O")
		for f := 0; f < r.N(3, 8); f++ {
			bit := rng.IntN(8 * c.lenV)
			if f == 0 {
				bit = 8*c.lenV - 1 // top bit of the last byte (sign bit on Ed25519)
			}
			J("commitment/bit-flip", msg, gen.FlipBit(H.sig, bit), fmt.Sprintf("Vflip%d", bit))
		}
	}
	// ---- response r
	{
		mod := func(x *big.Int) *big.Int { return x.Mod(x, c.q) }
		J("response/plus-one", msg, rebuild(H.Venc, mod(new(big.Int).Add(H.r, big.NewInt(1))), H.Z), "r+1")
		J("response/negated", msg, rebuild(H.Venc, mod(new(big.Int).Neg(H.r)), H.Z), "-r")
		J("response/zero", msg, rebuild(H.Venc, new(big.Int), H.Z), "r=0")
		for f := 0; f < r.N(3, 8); f++ {
			bit := 8*c.lenV + rng.IntN(8*c.lenS)
			J("response/bit-flip", msg, gen.FlipBit(H.sig, bit), fmt.Sprintf("rflip%d", bit))
		}
		// r + q (same residue, non-canonical bytes) where it fits
		rq := new(big.Int).Add(H.r, c.q)
		if rq.BitLen() <= 8*c.lenS {
			b := rq.FillBytes(make([]byte, c.lenS))
			if c.g.Grp.Scalar().ByteOrder() == kyber.LittleEndian {
				for i, k := 0, len(b)-1; i < k; i, k = i+1, k-1 {
					b[i], b[k] = b[k], b[i]
				}
			}
			J("response/non-canonical-r+q", msg, append(append(c09Cp(H.Venc), b...), H.Z...), "r+q")
		}
	}
	// ---- a second honest run on the same (P, msg): components must not be interchangeable
	{
		H2 := c.protocol(rng, P, msg, "")
		J("honest/second-run", msg, H2.sig, "run2")
		J("mixed/V-of-run1-r-of-run2", msg, rebuild(H.Venc, H2.r, H.Z), "V1r2")
		J("mixed/V-of-run2-r-of-run1", msg, rebuild(H2.Venc, H.r, H.Z), "V2r1")
	}
	// ---- roster changes (same signature)
	{
		fresh := c09NonZero(rng, c.q)
		pi := P.idx()[rng.IntN(cnt)]
		ro, se := c09CpAll(c.pubEnc), append([]*big.Int(nil), c.as...)
		ro[pi], se[pi] = groups.Enc(c.mulBase(fresh)), fresh
		c.judge(rng, "roster/participant-key-replaced", ro, se, msg, H.sig, lax, "ro-part")
		if cnt < n {
			var np int
			for i := range P {
				if !P[i] {
					np = i
					break
				}
			}
			ro, se := c09CpAll(c.pubEnc), append([]*big.Int(nil), c.as...)
			ro[np], se[np] = groups.Enc(c.mulBase(fresh)), fresh
			c.judge(rng, "roster/non-participant-key-replaced", ro, se, msg, H.sig, lax, "ro-nonpart")
		}
		if n >= 2 {
			perm := rng.Perm(n)
			ro, se := make([][]byte, n), make([]*big.Int, n)
			for a, b := range perm {
				ro[a], se[a] = c.pubEnc[b], c.as[b]
			}
			c.judge(rng, "roster/permuted", ro, se, msg, H.sig, lax, fmt.Sprint(perm))
			c.judge(rng, "roster/last-key-dropped", c.pubEnc[:n-1], c.as[:n-1], msg, H.sig, lax, "ro-short")
		}
		ro2, se2 := append(c09CpAll(c.pubEnc), groups.Enc(c.mulBase(fresh))), append(append([]*big.Int(nil), c.as...), fresh)
		c.judge(rng, "roster/one-key-appended", ro2, se2, msg, H.sig, lax, "ro-long")
	}
	// ---- deviating parties
	cheats := []string{"one-response-with-wrong-private-key", "one-challenge-over-another-message", "one-challenge-over-full-roster-key", "one-response-missing", "leader-drops-one-commitment"}
	for _, ch := range cheats {
		D := c.protocol(rng, P, msg, ch)
		J("deviation/"+ch, msg, D.sig, ch)
	}

	// ---- mask state machine
	c.maskSequence(rng)
}

// maskSequence applies random SetBit/SetMask steps to a cosi.Mask; after every
// step AggregatePublic must be the fresh sum of the enabled keys.
func (c *c09CosiCtx) maskSequence(rng *gen.Rng) {
	r, n := c.r, c.n
	var hist []string
	sh := make(c09Pattern, n)
	key := "C09/cosi/" + c.cs + "/mask-sequence"
	r.Guard(key, map[string]any{"suite": c.cs, "job": c.job, "history": &hist, "secrets": c09BigHex(c.as)}, func() {
		s := c.suite(rng)
		var m *cosi.Mask
		var err error
		if rng.IntN(2) == 0 {
			my := rng.IntN(n)
			m, err = cosi.NewMask(s, c.roster(c.pubEnc), c09MustDec(c.g.Grp, c.pubEnc[my]))
			sh[my] = true
			hist = append(hist, fmt.Sprintf("NewMask(myKey=%d)", my))
		} else {
			m, err = cosi.NewMask(s, c.roster(c.pubEnc), nil)
			hist = append(hist, "NewMask(nil)")
		}
		if err != nil {
			panic("cosi.NewMask failed: " + err.Error())
		}
		check := func(step int) bool {
			r.Eval("cosi/mask-sequence/step", fmt.Sprintf("%s|%s|%d", c.cs, c.job, step), true)
			bad := func(what string, extra map[string]any) {
				d := map[string]any{"suite": c.cs, "job": c.job, "n": n, "history": append([]string(nil), hist...), "want_bits": sh.String(), "secrets": c09BigHex(c.as)}
				for k, v := range extra {
					d[k] = v
				}
				r.Violation(key+"/"+what, "cosi.Mask after a sequence of SetBit/SetMask: "+what, d)
			}
			got := c09PatternFromBytes(m.Mask(), n)
			if !got.equal(sh) {
				bad("mask-bits-diverged", map[string]any{"got_bits": got.String()})
				return false
			}
			if m.CountEnabled() != sh.count() || m.CountTotal() != n || m.Len() != (n+7)/8 {
				bad("count-wrong", map[string]any{"enabled": m.CountEnabled(), "total": m.CountTotal()})
			}
			// fresh sum two ways: Σ a_i in math/big times B, and point additions in descending order
			want := c.mulBase(c.aggSecret(c.as, sh))
			sum := c.g.Grp.Point().Null()
			for i := n - 1; i >= 0; i-- {
				if sh[i] {
					sum = c.g.Grp.Point().Add(sum, c09MustDec(c.g.Grp, c.pubEnc[i]))
				}
			}
			if !m.AggregatePublic.Equal(want) || !m.AggregatePublic.Equal(sum) || string(groups.Enc(m.AggregatePublic)) != string(groups.Enc(want)) {
				bad("AggregatePublic-not-sum-of-enabled-keys", map[string]any{"got": mon.Hex(groups.Enc(m.AggregatePublic)), "want": mon.Hex(groups.Enc(want))})
				return false
			}
			for i := 0; i < n; i++ {
				b, err := m.IndexEnabled(i)
				kb, kerr := m.KeyEnabled(c09MustDec(c.g.Grp, c.pubEnc[i]))
				if err != nil || kerr != nil || b != sh[i] || kb != sh[i] {
					bad("IndexEnabled/KeyEnabled-wrong", map[string]any{"i": i, "index_enabled": b, "key_enabled": kb, "errs": fmt.Sprint(err, kerr)})
					break
				}
			}
			// sign.Policy accepts a cosi.Mask as ParticipationMask
			if (sign.CompletePolicy{}).Check(m) != (sh.count() == n) || sign.NewThresholdPolicy(sh.count()).Check(m) != true || sign.NewThresholdPolicy(sh.count()+1).Check(m) != false {
				bad("sign.Policy-wrong", nil)
			}
			return true
		}
		if !check(0) {
			return
		}
		steps := 8 + rng.IntN(12)
		for st := 1; st <= steps; st++ {
			switch op := rng.IntN(10); {
			case op < 5:
				i, b := rng.IntN(n), rng.IntN(2) == 0
				hist = append(hist, fmt.Sprintf("SetBit(%d,%v)", i, b))
				if err := m.SetBit(i, b); err != nil {
					panic("SetBit in range failed: " + err.Error())
				}
				sh[i] = b
			case op == 5:
				hist = append(hist, fmt.Sprintf("SetBit(%d,true) [out of range]", n))
				if err := m.SetBit(n, true); err == nil {
					hist = append(hist, "  (accepted)")
				}
			case op == 6:
				wrong := make([]byte, (n+7)/8+1)
				for i := range wrong {
					wrong[i] = 0xff
				}
				hist = append(hist, "SetMask(ff.. one byte too long)")
				if err := m.SetMask(wrong); err == nil {
					hist = append(hist, "  (accepted)")
					sh = c09PatternFromBytes(m.Mask(), n) // nothing demanded: follow
				}
			default:
				p, _ := c09MakePattern(rng, n, 99)
				if rng.IntN(5) == 0 {
					p = make(c09Pattern, n)
				}
				b := p.bytes()
				if n%8 != 0 && rng.IntN(3) == 0 {
					b[len(b)-1] |= byte(0xff) << uint(n%8) // stray bits beyond the roster
					hist = append(hist, "SetMask("+p.String()+"+stray)")
				} else {
					hist = append(hist, "SetMask("+p.String()+")")
				}
				if err := m.SetMask(b); err != nil {
					panic("SetMask with matching length failed: " + err.Error())
				}
				sh = p.clone()
			}
			if !check(st) {
				return
			}
		}
	})
}
