package main

// All-honest runs of the two DKG implementations, used by C12 only to obtain
// distributed keys "produced by a DKG". Every node has its own seeded suite;
// messages are copied per recipient. The outcome is re-checked by the C12
// reference before any DSS judgement is made (a failing DKG makes the case
// inconclusive for C12: DKG correctness is property C11).

import (
	"fmt"

	"go.dedis.ch/kyber/v4"
	"go.dedis.ch/kyber/v4/group/edwards25519"
	dkgp "go.dedis.ch/kyber/v4/share/dkg/pedersen"
	dkgr "go.dedis.ch/kyber/v4/share/dkg/rabin"
	"go.dedis.ch/kyber/v4/sign/dss"
	"go.dedis.ch/kyber/v4/sign/schnorr"
	"go.dedis.ch/kyber/v4/xof/blake2xb"

	"verif/internal/gen"
)

// c12Nodes are the long-term identities of one group of participants.
type c12Nodes struct {
	n      int
	suites []*edwards25519.SuiteEd25519 // one seeded suite per node
	privs  []kyber.Scalar
	pubs   []kyber.Point
}

func c12NewNodes(n int, rng *gen.Rng) *c12Nodes {
	nd := &c12Nodes{n: n}
	for i := 0; i < n; i++ {
		s := edwards25519.NewBlakeSHA256Ed25519WithRand(rng.Stream())
		x := s.Scalar().Pick(rng.Stream())
		nd.suites = append(nd.suites, s)
		nd.privs = append(nd.privs, x)
		nd.pubs = append(nd.pubs, s.Point().Mul(x, nil))
	}
	return nd
}

// c12RunDKG runs one all-honest DKG of the given kind and returns the
// distributed key share of every node (index i = position in the list).
func c12RunDKG(kind string, nd *c12Nodes, t int, rng *gen.Rng) ([]dss.DistKeyShare, error) {
	switch kind {
	case "pedersen":
		return c12RunPedersen(nd, t, rng)
	case "rabin":
		return c12RunRabin(nd, t)
	}
	return nil, fmt.Errorf("unknown dkg kind %q", kind)
}

func c12RunPedersen(nd *c12Nodes, t int, rng *gen.Rng) ([]dss.DistKeyShare, error) {
	n := nd.n
	nodes := make([]dkgp.Node, n)
	for i := 0; i < n; i++ {
		nodes[i] = dkgp.Node{Index: uint32(i), Public: nd.pubs[i]}
	}
	nonce := rng.Bytes(dkgp.NonceLength)
	gens := make([]*dkgp.DistKeyGenerator, n)
	for i := 0; i < n; i++ {
		cfg := &dkgp.Config{
			Suite:          nd.suites[i],
			Longterm:       nd.privs[i],
			NewNodes:       append([]dkgp.Node(nil), nodes...),
			Threshold:      uint32(t),
			Nonce:          append([]byte(nil), nonce...),
			Auth:           schnorr.NewScheme(nd.suites[i]),
			Reader:         blake2xb.New(rng.Bytes(32)),
			UserReaderOnly: true,
		}
		g, err := dkgp.NewDistKeyHandler(cfg)
		if err != nil {
			return nil, fmt.Errorf("pedersen NewDistKeyHandler(%d): %w", i, err)
		}
		gens[i] = g
	}
	var deals []*dkgp.DealBundle
	for i, g := range gens {
		b, err := g.Deals()
		if err != nil {
			return nil, fmt.Errorf("pedersen Deals(%d): %w", i, err)
		}
		deals = append(deals, b)
	}
	var resps []*dkgp.ResponseBundle
	for i, g := range gens {
		rb, err := g.ProcessDeals(append([]*dkgp.DealBundle(nil), deals...))
		if err != nil {
			return nil, fmt.Errorf("pedersen ProcessDeals(%d): %w", i, err)
		}
		if rb != nil {
			resps = append(resps, rb)
		}
	}
	res := make([]*dkgp.Result, n)
	var justs []*dkgp.JustificationBundle
	for i, g := range gens {
		rr, jb, err := g.ProcessResponses(append([]*dkgp.ResponseBundle(nil), resps...))
		if err != nil {
			return nil, fmt.Errorf("pedersen ProcessResponses(%d): %w", i, err)
		}
		res[i] = rr
		if jb != nil {
			justs = append(justs, jb)
		}
	}
	for i, g := range gens {
		if res[i] != nil {
			continue
		}
		rr, err := g.ProcessJustifications(append([]*dkgp.JustificationBundle(nil), justs...))
		if err != nil {
			return nil, fmt.Errorf("pedersen ProcessJustifications(%d): %w", i, err)
		}
		res[i] = rr
	}
	out := make([]dss.DistKeyShare, n)
	for i := range res {
		if res[i] == nil || res[i].Key == nil {
			return nil, fmt.Errorf("pedersen: node %d has no result", i)
		}
		out[i] = res[i].Key
	}
	return out, nil
}

func c12RunRabin(nd *c12Nodes, t int) ([]dss.DistKeyShare, error) {
	n := nd.n
	gens := make([]*dkgr.DistKeyGenerator, n)
	for i := 0; i < n; i++ {
		g, err := dkgr.NewDistKeyGenerator(nd.suites[i], nd.privs[i], append([]kyber.Point(nil), nd.pubs...), uint32(t))
		if err != nil {
			return nil, fmt.Errorf("rabin NewDistKeyGenerator(%d): %w", i, err)
		}
		gens[i] = g
	}
	var resps []*dkgr.Response
	for i, g := range gens {
		deals, err := g.Deals()
		if err != nil {
			return nil, fmt.Errorf("rabin Deals(%d): %w", i, err)
		}
		for j := 0; j < n; j++ { // fixed order (Deals returns a map)
			d, ok := deals[j]
			if !ok {
				continue
			}
			resp, err := gens[j].ProcessDeal(d)
			if err != nil {
				return nil, fmt.Errorf("rabin ProcessDeal(%d<-%d): %w", j, i, err)
			}
			if !resp.Response.Approved {
				return nil, fmt.Errorf("rabin: node %d complains about honest dealer %d", j, i)
			}
			resps = append(resps, resp)
		}
	}
	for _, resp := range resps {
		for i, g := range gens {
			if resp.Response.Index == uint32(i) {
				continue
			}
			inner := *resp.Response
			inner.SessionID = append([]byte(nil), resp.Response.SessionID...)
			inner.Signature = append([]byte(nil), resp.Response.Signature...)
			cp := &dkgr.Response{Index: resp.Index, Response: &inner}
			j, err := g.ProcessResponse(cp)
			if err != nil {
				return nil, fmt.Errorf("rabin ProcessResponse(%d): %w", i, err)
			}
			if j != nil {
				return nil, fmt.Errorf("rabin: unexpected justification at node %d", i)
			}
		}
	}
	for i, g := range gens {
		if !g.Certified() {
			return nil, fmt.Errorf("rabin: node %d not certified in an all-honest run", i)
		}
	}
	var scs []*dkgr.SecretCommits
	for i, g := range gens {
		sc, err := g.SecretCommits()
		if err != nil {
			return nil, fmt.Errorf("rabin SecretCommits(%d): %w", i, err)
		}
		scs = append(scs, sc)
	}
	for _, sc := range scs {
		for i, g := range gens {
			if sc.Index == uint32(i) {
				continue
			}
			cp := &dkgr.SecretCommits{Index: sc.Index, Commitments: append([]kyber.Point(nil), sc.Commitments...),
				SessionID: append([]byte(nil), sc.SessionID...), Signature: append([]byte(nil), sc.Signature...)}
			cc, err := g.ProcessSecretCommits(cp)
			if err != nil {
				return nil, fmt.Errorf("rabin ProcessSecretCommits(%d<-%d): %w", i, sc.Index, err)
			}
			if cc != nil {
				return nil, fmt.Errorf("rabin: node %d complains about the commitments of %d", i, sc.Index)
			}
		}
	}
	out := make([]dss.DistKeyShare, n)
	for i, g := range gens {
		dks, err := g.DistKeyShare()
		if err != nil {
			return nil, fmt.Errorf("rabin DistKeyShare(%d): %w", i, err)
		}
		out[i] = dks
	}
	return out, nil
}
