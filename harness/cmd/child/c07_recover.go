package main

import (
	"bytes"
	"fmt"
	"math/big"
	"sort"
	"strings"

	"go.dedis.ch/kyber/v4/share"

	"verif/internal/gen"
	"verif/internal/groups"
	"verif/internal/ref"
)

// A layout is the share slice handed to the Recover functions: entry >= 0 is
// (a fresh copy of) the share with that index, -1 is a nil entry.

func c07Layout(c *c07ctx, S []int, pres string) []int {
	rng := c.rng
	k := len(S)
	shuffled := func() []int {
		out := make([]int, k)
		for a, p := range rng.Perm(k) {
			out[a] = S[p]
		}
		return out
	}
	switch pres {
	case "compact-sorted":
		return append([]int(nil), S...)
	case "compact-reversed":
		out := make([]int, k)
		for a := range S {
			out[a] = S[k-1-a]
		}
		return out
	case "compact-shuffled":
		return shuffled()
	case "slots":
		out := make([]int, c.n)
		for i := range out {
			out[i] = -1
		}
		for _, i := range S {
			out[i] = i
		}
		return out
	case "scattered":
		L := c.n + rng.IntN(4)
		if L < k {
			L = k
		}
		out := make([]int, L)
		for i := range out {
			out[i] = -1
		}
		pos := rng.Perm(L)
		for a, i := range shuffled() {
			out[pos[a]] = i
		}
		return out
	case "duplicated":
		out := shuffled()
		if k == 0 {
			return []int{-1}
		}
		// enough duplicates that the slice length reaches t even when k < t
		nd := 1
		if k < c.t {
			nd = c.t - k + rng.IntN(2)
		}
		for d := 0; d < nd; d++ {
			dup := S[rng.IntN(k)]
			at := rng.IntN(len(out) + 1)
			out = append(out, 0)
			copy(out[at+1:], out[at:])
			out[at] = dup
		}
		if rng.IntN(2) == 0 {
			at := rng.IntN(len(out) + 1)
			out = append(out, 0)
			copy(out[at+1:], out[at:])
			out[at] = -1
		}
		return out
	}
	panic("harness: unknown presentation " + pres)
}

func c07LayoutString(l []int) string {
	var sb strings.Builder
	for a, x := range l {
		if a > 0 {
			sb.WriteByte(',')
		}
		if x < 0 {
			sb.WriteByte('_')
		} else {
			fmt.Fprintf(&sb, "%d", x)
		}
	}
	return sb.String()
}

func c07Shape(c *c07ctx, S []int) string {
	k := len(S)
	var parts []string
	switch {
	case k < c.t:
		parts = append(parts, "below-t")
	case k == c.t:
		parts = append(parts, "exact-t")
	default:
		parts = append(parts, "surplus")
	}
	if k > 0 {
		if S[0] != 0 {
			parts = append(parts, "index0-absent")
		}
		contig := true
		for a := 1; a < k; a++ {
			if S[a] != S[a-1]+1 {
				contig = false
			}
		}
		if !contig {
			parts = append(parts, "non-contiguous")
		}
	}
	return strings.Join(parts, "+")
}

// c07Recover runs the four Recover functions on one layout and judges them.
// ops selects which to run: s=RecoverSecret c=RecoverCommit p=RecoverPriPoly P=RecoverPubPoly.
func c07Recover(c *c07ctx, S []int, pres string, layout []int, ops string) {
	g, r := c.g, c.r
	t, n := uint32(c.t), uint32(c.n)
	k := len(S)
	enough := k >= c.t
	size := "below-t"
	if k == c.t {
		size = "exact-t"
	} else if k > c.t {
		size = "surplus"
	}
	nontriv := !c.ref.IsZero()
	ls := c07LayoutString(layout)
	// handles to the share objects handed to the library (kept apart from the
	// slice itself, which the callee may reorder), to see that a recovery leaves
	// the caller's shares usable for the next one
	var priH []*share.PriShare
	var pubH []*share.PubShare
	var hIdx []int
	mkPri := func() []*share.PriShare {
		out := make([]*share.PriShare, len(layout))
		priH, hIdx = nil, nil
		for a, i := range layout {
			if i >= 0 {
				out[a] = c.priShare(i)
				priH = append(priH, out[a])
				hIdx = append(hIdx, i)
			}
		}
		return out
	}
	mkPub := func() []*share.PubShare {
		out := make([]*share.PubShare, len(layout))
		pubH, hIdx = nil, nil
		for a, i := range layout {
			if i >= 0 {
				out[a] = c.pubShare(i)
				pubH = append(pubH, out[a])
				hIdx = append(hIdx, i)
			}
		}
		return out
	}
	ex := func() map[string]any {
		return map[string]any{"subset": fmt.Sprint(S), "presentation": pres, "slice": ls, "shape": c07Shape(c, S), "distinct_shares": k}
	}
	judged := func(op string) {
		r.Eval("recover/"+op+"/"+size+"/"+pres, c.desc(op+"|"+pres+"|"+ls), nontriv)
		if enough {
			c07Counter("recover/accepted").Add(1)
		} else {
			c07Counter("recover/refused").Add(1)
		}
		r.SampleClass("recover/"+op+"/"+size+"/"+pres, map[string]any{"kind": "recover", "op": op, "group": g.Name, "t": c.t, "n": c.n, "slice": ls, "presentation": pres, "expect_success": enough, "coef_class": c.coefKind, "base_class": c.baseKind})
	}
	intactPri := func(op string) {
		for a, h := range priH {
			if h.I != uint32(hIdx[a]) || h.V == nil || !bytes.Equal(groups.Enc(h.V), c.shareEnc[hIdx[a]]) {
				d := ex()
				d["share_index"] = hIdx[a]
				c.viol(op, "input-share-changed", op+" modified a share of the caller (a later recovery from the same shares gives another result)", d)
				return
			}
		}
	}
	intactPub := func(op string) {
		for a, h := range pubH {
			if h.I != uint32(hIdx[a]) || h.V == nil || !bytes.Equal(groups.Enc(h.V), c.pubEnc[hIdx[a]]) {
				d := ex()
				d["share_index"] = hIdx[a]
				c.viol(op, "input-share-changed", op+" modified a public share of the caller (a later recovery from the same shares gives another result)", d)
				return
			}
		}
	}
	refused := func(op string, err error, isNil bool) bool {
		// returns true when the call was (rightly or wrongly) refused
		if enough {
			if err != nil || isNil {
				d := ex()
				d["err"] = fmt.Sprint(err)
				c.viol(op, size+"/refused-with-enough-shares", op+" refuses although at least t distinct valid shares are present", d)
				return true
			}
			return false
		}
		if err == nil {
			c.viol(op, size+"/accepted-below-threshold", op+" returns a result from fewer than t distinct shares", ex())
		}
		return true
	}

	if strings.Contains(ops, "s") {
		r.Op("RecoverSecret")
		r.Guard("C07/"+g.Name+"/RecoverSecret/"+size, c.detail(ex()), func() {
			got, err := share.RecoverSecret(g.Grp, mkPri(), t, n)
			judged("RecoverSecret")
			intactPri("RecoverSecret")
			if !refused("RecoverSecret", err, got == nil) {
				gb := groups.ScalarToBig(got)
				if gb.Cmp(c.ref.C[0]) != 0 || !got.Equal(g.ScalarFromBig(c.ref.C[0])) {
					d := ex()
					d["got"], d["want"] = gb.Text(16), c.ref.C[0].Text(16)
					c.viol("RecoverSecret", size+"/wrong-secret", "RecoverSecret does not return the dealer's secret", d)
				}
			}
		})
	}
	if strings.Contains(ops, "c") {
		r.Op("RecoverCommit")
		r.Guard("C07/"+g.Name+"/RecoverCommit/"+size, c.detail(ex()), func() {
			got, err := share.RecoverCommit(g.Grp, mkPub(), t, n)
			judged("RecoverCommit")
			intactPub("RecoverCommit")
			if !refused("RecoverCommit", err, got == nil) {
				if ok, why := c07SamePt(got, c07DecP(g, c.commEnc[0])); !ok {
					d := ex()
					d["why"] = why
					c.viol("RecoverCommit", size+"/wrong-commitment", "RecoverCommit does not return secret * base", d)
				}
			}
		})
	}
	if strings.Contains(ops, "p") {
		r.Op("RecoverPriPoly")
		r.Guard("C07/"+g.Name+"/RecoverPriPoly/"+size, c.detail(ex()), func() {
			got, err := share.RecoverPriPoly(g.Grp, mkPri(), t, n)
			judged("RecoverPriPoly")
			intactPri("RecoverPriPoly")
			if !refused("RecoverPriPoly", err, got == nil) {
				cs := got.Coefficients()
				gotB := make([]*big.Int, len(cs))
				for j := range cs {
					gotB[j] = groups.ScalarToBig(cs[j])
				}
				if !ref.C07NewPoly(g.Q, gotB).Equal(c.ref) || int(got.Threshold()) != c.t {
					d := ex()
					d["got"] = c07Big(gotB)
					c.viol("RecoverPriPoly", size+"/wrong-polynomial", "RecoverPriPoly does not return the dealer's coefficients", d)
				} else {
					if !got.Equal(c.pp) || !c.pp.Equal(got) {
						c.viol("RecoverPriPoly", size+"/not-Equal-dealer", "recovered polynomial has the dealer's coefficients but PriPoly.Equal says otherwise", ex())
					}
					// the recovered polynomial must be usable: one evaluation
					i := uint32(c.rng.IntN(c.n + 1))
					if groups.ScalarToBig(got.Eval(i).V).Cmp(c.ref.EvalIndex(i)) != 0 {
						d := ex()
						d["i"] = i
						c.viol("RecoverPriPoly", size+"/wrong-eval", "evaluation of the recovered polynomial differs from the dealer's", d)
					}
					// the recovered polynomial as an object of its own (first success per job in each slice form)
					if c.batteryDue("RecoverPriPoly", pres) {
						bs := c07Bases(g, c.rng)
						c.battery().pri("RecoverPriPoly", got, c.ref, []c07base{bs[(c.n+c.t+c.idx+len(layout))%len(bs)]})
						intactPri("RecoverPriPoly")
						// a value of its own: overwriting its coefficients must not reach the caller's shares
						for _, x := range got.Coefficients() {
							x.Add(x, g.Scalar().One())
						}
						intactPri("RecoverPriPoly(result overwritten)")
					}
				}
			}
		})
	}
	if strings.Contains(ops, "P") {
		r.Op("RecoverPubPoly")
		r.Guard("C07/"+g.Name+"/RecoverPubPoly/"+size, c.detail(ex()), func() {
			got, err := share.RecoverPubPoly(g.Grp, mkPub(), t, n)
			judged("RecoverPubPoly")
			intactPub("RecoverPubPoly")
			if !refused("RecoverPubPoly", err, got == nil) {
				_, cs := got.Info()
				bad := ""
				if len(cs) != c.t || int(got.Threshold()) != c.t {
					bad = fmt.Sprintf("has %d commitments, want %d", len(cs), c.t)
				} else {
					for j := range cs {
						if ok, why := c07SamePt(cs[j], c07DecP(g, c.commEnc[j])); !ok {
							bad = fmt.Sprintf("commitment %d: %s", j, why)
							break
						}
					}
				}
				if bad != "" {
					d := ex()
					d["why"] = bad
					c.viol("RecoverPubPoly", size+"/wrong-polynomial", "RecoverPubPoly does not return the dealer's commitments", d)
				} else {
					if !got.Equal(c.pub) || !c.pub.Equal(got) {
						c.viol("RecoverPubPoly", size+"/not-Equal-dealer", "recovered public polynomial has the dealer's commitments but PubPoly.Equal says otherwise", ex())
					}
					i := c.rng.IntN(c.n + 1)
					if ok, why := c07SamePt(got.Eval(uint32(i)).V, c07DecP(g, c.pubEnc[i])); !ok {
						d := ex()
						d["i"], d["why"] = i, why
						c.viol("RecoverPubPoly", size+"/wrong-eval", "evaluation of the recovered public polynomial differs from the dealer's", d)
					}
					// as an object of its own; its base is not judged (RecoverPubPoly cannot know it), hence no Check
					if c.batteryDue("RecoverPubPoly", pres) {
						sp := c07SpecOver(g, c.ref, c07base{"recovered(base-unknown)", c.base, c.base})
						sp.rp, sp.base = nil, nil
						c.battery().pub("RecoverPubPoly", got, sp, 0)
						intactPub("RecoverPubPoly")
						_, gc := got.Info()
						for _, x := range gc {
							x.Add(x, g.Point().Base())
						}
						intactPub("RecoverPubPoly(result overwritten)")
					}
				}
			}
		})
	}
}

// batteryDue: the derived-object battery runs on the first successful
// recovery of a job in the n-slot form and on the first in any other form.
func (c *c07ctx) batteryDue(op, pres string) bool {
	k := op + "/other"
	if pres == "slots" {
		k = op + "/slots"
	}
	if c.batDone == nil {
		c.batDone = map[string]bool{}
	}
	if c.batDone[k] {
		return false
	}
	c.batDone[k] = true
	return true
}

func (c *c07ctx) battery() *c07bat {
	return &c07bat{r: c.r, g: c.g, rng: c.rng, n: c.n, ctx: c.desc("battery"), det: c.detail, light: c.light}
}

// c07OracleSelfTest cross-checks the three reference routes on subset S
// (|S| >= t): the interpolation of the first t shares by index must be the
// dealer's polynomial. A failure is a defect of the harness, not of kyber.
func c07OracleSelfTest(c *c07ctx, S []int) {
	if len(S) < c.t {
		return
	}
	xs := make([]int64, c.t)
	ys := make([]*big.Int, c.t)
	for a := 0; a < c.t; a++ {
		xs[a] = int64(S[a]) + 1
		ys[a] = c.ref.EvalIndex(uint32(S[a]))
	}
	ip := ref.C07Interpolate(c.g.Q, xs, ys)
	l0 := ref.C07Lagrange0(c.g.Q, xs, ys)
	if ip == nil || l0 == nil || !ip.Equal(c.ref) || l0.Cmp(c.ref.C[0]) != 0 {
		panic(fmt.Sprintf("harness: reference routes disagree on subset %v of %v", S, c07Big(c.ref.C)))
	}
}

var c07Pres = []string{"compact-sorted", "compact-shuffled", "scattered", "duplicated", "compact-reversed"}

// c07Exhaustive: every subset of the n shares (all sizes, including the
// empty one), each in the n-slot nil-hole form and in rotating other forms.
func c07Exhaustive(c *c07ctx) {
	n := c.n
	cnt := 0
	full := c.r.Thorough() && !c.light
	for mask := 0; mask < 1<<uint(n); mask++ {
		var S []int
		for i := 0; i < n; i++ {
			if mask>>uint(i)&1 == 1 {
				S = append(S, i)
			}
		}
		c07Counter("subsets/exhaustive").Add(1)
		c07OracleSelfTest(c, S)
		c07Recover(c, S, "slots", c07Layout(c, S, "slots"), "scpP")
		if full {
			for _, p := range c07Pres {
				if len(S) < 2 && p != "duplicated" && p != "scattered" {
					continue
				}
				c07Recover(c, S, p, c07Layout(c, S, p), "scpP")
			}
		} else {
			p := c07Pres[(cnt+c.idx)%len(c07Pres)]
			ops := "scpP"
			if c.light {
				ops = "sc" + string("pP"[cnt%2])
			}
			c07Recover(c, S, p, c07Layout(c, S, p), ops)
		}
		// all orders of small subsets (scalar side: cheap)
		maxK, maxN := 4, 5
		if c.r.Thorough() {
			maxK, maxN = 5, 6
		}
		if c.idx == 0 && n <= maxN && len(S) >= 2 && len(S) <= maxK && len(S) >= c.t-1 {
			for _, pm := range gen.Perms(len(S)) {
				l := make([]int, len(S))
				for a, p := range pm {
					l[a] = S[p]
				}
				if sort.IntsAreSorted(l) {
					continue
				}
				ops := "sp"
				if len(S) <= 3 {
					ops = "scpP"
				}
				c07Recover(c, S, "all-orders", l, ops)
			}
		}
		cnt++
	}
	c.r.NoteAdd("tn-pairs-exhaustive", 1)
}

// c07Sampled: structured and random subsets for larger n.
func c07Sampled(c *c07ctx) {
	n, t, rng := c.n, c.t, c.rng
	type sub struct {
		name string
		S    []int
	}
	rangeS := func(a, b int) []int { // [a,b)
		var s []int
		for i := a; i < b; i++ {
			s = append(s, i)
		}
		return s
	}
	randS := func(k int) []int {
		s := append([]int(nil), rng.Perm(n)[:k]...)
		sort.Ints(s)
		return s
	}
	subs := []sub{
		{"first-t", rangeS(0, t)},
		{"last-t", rangeS(n-t, n)},
		{"random-t", randS(t)},
		{"all-n", rangeS(0, n)},
		{"t-1", randS(t - 1)},
		{"empty", nil},
	}
	if t < n {
		subs = append(subs, sub{"random-surplus", randS(t + 1 + rng.IntN(n-t))})
		// every other index (non contiguous), as many as fit, padded from the end if below t
		var s []int
		for i := n - 1; i >= 0 && len(s) < t; i -= 2 {
			s = append(s, i)
		}
		for i := n - 2; i >= 0 && len(s) < t; i -= 2 {
			s = append(s, i)
		}
		sort.Ints(s)
		subs = append(subs, sub{"strided-from-top", s})
	}
	extra := c.r.N(1, 4)
	if c.light {
		extra = 1
	}
	for e := 0; e < extra; e++ {
		k := rng.IntN(n + 1)
		subs = append(subs, sub{"random-any-size", randS(k)})
	}
	for si, sb := range subs {
		c07Counter("subsets/sampled").Add(1)
		c07OracleSelfTest(c, sb.S)
		// the quadratic RecoverPubPoly runs on the nil-hole form and one more form; the others get the three cheaper calls
		c07Recover(c, sb.S, "slots", c07Layout(c, sb.S, "slots"), "scpP")
		for pi, p := range c07Pres {
			if len(sb.S) < 2 && p != "duplicated" && p != "scattered" {
				continue
			}
			sel := (pi+si+c.idx)%len(c07Pres) == 0
			if !c.r.Thorough() || c.light {
				if !sel && (pi+si+c.idx)%len(c07Pres) != 1 {
					continue
				}
			}
			ops := "scp"
			if sel {
				ops = "scpP"
			}
			c07Recover(c, sb.S, p, c07Layout(c, sb.S, p), ops)
		}
	}
	c.r.NoteAdd("tn-pairs-sampled", 1)
}
