package main

import (
	"fmt"
	"math/big"
	"sort"

	"go.dedis.ch/kyber/v4"
	"go.dedis.ch/kyber/v4/proof/dleq"
	"go.dedis.ch/kyber/v4/share/pvss"

	"verif/internal/gen"
	"verif/internal/mon"
)

// c13View is what a third party receives: public parameters, keys, commitment
// coefficients, encrypted shares and (later) decrypted shares.
type c13View struct {
	G, H    kyber.Point
	X       []kyber.Point
	commits []kyber.Point
	enc     []*pvss.PubVerShare
	dec     []*pvss.PubVerShare
}

func (v *c13View) clone(g kyber.Group) *c13View {
	c := &c13View{G: c13cpP(g, v.G), H: c13cpP(g, v.H), X: c13cpPs(g, v.X), commits: c13cpPs(g, v.commits), enc: c13cpShares(g, v.enc)}
	if v.dec != nil {
		c.dec = c13cpShares(g, v.dec)
	}
	return c
}

func (v *c13View) hexmap() map[string]any {
	m := map[string]any{"G": c13hex(v.G), "H": c13hex(v.H)}
	var xs, cs []string
	for _, x := range v.X {
		xs = append(xs, c13hex(x))
	}
	for _, c := range v.commits {
		cs = append(cs, c13hex(c))
	}
	m["X"], m["commits"] = xs, cs
	var es, ds []any
	for _, e := range v.enc {
		es = append(es, c13shareHex(e))
	}
	for _, d := range v.dec {
		ds = append(ds, c13shareHex(d))
	}
	m["enc"] = es
	if ds != nil {
		m["dec"] = ds
	}
	return m
}

// ---- mutation kinds -----------------------------------------------------------

type c13PKind struct {
	name string
	tors bool
	f    func(s *c13Sess, p kyber.Point, rng *gen.Rng) kyber.Point
}

type c13SKind struct {
	name string
	f    func(g kyber.Group, x kyber.Scalar, rng *gen.Rng) kyber.Scalar
}

func c13PointKinds(f *c13Fam, withTorsion bool) []c13PKind {
	ks := []c13PKind{
		{"+G", false, func(s *c13Sess, p kyber.Point, _ *gen.Rng) kyber.Point { return s.g.Point().Add(p, s.g.Point().Base()) }},
		{"neg", false, func(s *c13Sess, p kyber.Point, _ *gen.Rng) kyber.Point { return s.g.Point().Neg(p) }},
		{"random", false, func(s *c13Sess, p kyber.Point, rng *gen.Rng) kyber.Point { return s.g.Point().Pick(rng.Stream()) }},
		{"identity", false, func(s *c13Sess, p kyber.Point, _ *gen.Rng) kyber.Point { return s.g.Point().Null() }},
		{"double", false, func(s *c13Sess, p kyber.Point, _ *gen.Rng) kyber.Point { return s.g.Point().Add(p, p) }},
	}
	if withTorsion {
		for k := range f.torsEnc {
			b := f.torsEnc[k]
			ks = append(ks, c13PKind{"+" + f.torsName[k], true, func(s *c13Sess, p kyber.Point, _ *gen.Rng) kyber.Point {
				return s.g.Point().Add(p, c13P(s.g, b))
			}})
		}
	}
	return ks
}

func c13ScalarKinds() []c13SKind {
	return []c13SKind{
		{"+1", func(g kyber.Group, x kyber.Scalar, _ *gen.Rng) kyber.Scalar {
			return g.Scalar().Add(x, g.Scalar().One())
		}},
		{"neg", func(g kyber.Group, x kyber.Scalar, _ *gen.Rng) kyber.Scalar { return g.Scalar().Neg(x) }},
		{"random", func(g kyber.Group, x kyber.Scalar, rng *gen.Rng) kyber.Scalar { return g.Scalar().Pick(rng.Stream()) }},
		{"zero", func(g kyber.Group, x kyber.Scalar, _ *gen.Rng) kyber.Scalar { return g.Scalar().Zero() }},
	}
}

// c13Mut is one entry of the mutation matrix. f edits the (cloned) view; i is the
// touched trustee, j a second trustee (swaps).
type c13Mut struct {
	class string
	tors  bool
	swap  bool
	f     func(s *c13Sess, v *c13View, i, j int, rng *gen.Rng)
}

func c13EncMuts(s *c13Sess) []c13Mut {
	var ms []c13Mut
	type pf struct {
		name string
		tors bool
		get  func(v *c13View, i int) *kyber.Point
	}
	fields := []pf{
		{"S.V", true, func(v *c13View, i int) *kyber.Point { return &v.enc[i].S.V }},
		{"P.VG", true, func(v *c13View, i int) *kyber.Point { return &v.enc[i].P.VG }},
		{"P.VH", true, func(v *c13View, i int) *kyber.Point { return &v.enc[i].P.VH }},
		{"key", true, func(v *c13View, i int) *kyber.Point { return &v.X[i] }},
		{"commit[0]", true, func(v *c13View, i int) *kyber.Point { return &v.commits[0] }},
		{"H", false, func(v *c13View, i int) *kyber.Point { return &v.H }},
	}
	if s.t >= 2 {
		fields = append(fields, pf{"commit[t-1]", true, func(v *c13View, i int) *kyber.Point { return &v.commits[len(v.commits)-1] }})
	}
	if s.t >= 3 {
		fields = append(fields, pf{"commit[mid]", false, func(v *c13View, i int) *kyber.Point { return &v.commits[1+i%(len(v.commits)-2)] }})
	}
	for _, fl := range fields {
		fl := fl
		for _, k := range c13PointKinds(s.fam, fl.tors) {
			k := k
			ms = append(ms, c13Mut{class: fl.name + ":" + k.name, tors: k.tors, f: func(s *c13Sess, v *c13View, i, j int, rng *gen.Rng) {
				p := fl.get(v, i)
				*p = k.f(s, *p, rng)
			}})
		}
	}
	for _, k := range c13ScalarKinds() {
		k := k
		ms = append(ms, c13Mut{class: "P.C:" + k.name, f: func(s *c13Sess, v *c13View, i, j int, rng *gen.Rng) {
			v.enc[i].P.C = k.f(s.g, v.enc[i].P.C, rng)
		}})
		ms = append(ms, c13Mut{class: "P.R:" + k.name, f: func(s *c13Sess, v *c13View, i, j int, rng *gen.Rng) {
			v.enc[i].P.R = k.f(s.g, v.enc[i].P.R, rng)
		}})
		ms = append(ms, c13Mut{class: "all-P.C:" + k.name, f: func(s *c13Sess, v *c13View, i, j int, rng *gen.Rng) {
			c := k.f(s.g, v.enc[0].P.C, rng)
			for _, e := range v.enc {
				e.P.C = c13cpS(s.g, c)
			}
		}})
	}
	ms = append(ms, c13IndexMuts(func(v *c13View) []*pvss.PubVerShare { return v.enc })...)
	ms = append(ms,
		c13Mut{class: "swap:share", swap: true, f: func(s *c13Sess, v *c13View, i, j int, _ *gen.Rng) { v.enc[i], v.enc[j] = v.enc[j], v.enc[i] }},
		c13Mut{class: "swap:proof", swap: true, f: func(s *c13Sess, v *c13View, i, j int, _ *gen.Rng) { v.enc[i].P, v.enc[j].P = v.enc[j].P, v.enc[i].P }},
		c13Mut{class: "swap:key", swap: true, f: func(s *c13Sess, v *c13View, i, j int, _ *gen.Rng) { v.X[i], v.X[j] = v.X[j], v.X[i] }},
		c13Mut{class: "swap:S.I", swap: true, f: func(s *c13Sess, v *c13View, i, j int, _ *gen.Rng) {
			v.enc[i].S.I, v.enc[j].S.I = v.enc[j].S.I, v.enc[i].S.I
		}},
		c13Mut{class: "swap:S.V", swap: true, f: func(s *c13Sess, v *c13View, i, j int, _ *gen.Rng) {
			v.enc[i].S.V, v.enc[j].S.V = v.enc[j].S.V, v.enc[i].S.V
		}},
		c13Mut{class: "swap:P.R", swap: true, f: func(s *c13Sess, v *c13View, i, j int, _ *gen.Rng) {
			v.enc[i].P.R, v.enc[j].P.R = v.enc[j].P.R, v.enc[i].P.R
		}},
		c13Mut{class: "swap:VG<->VH", f: func(s *c13Sess, v *c13View, i, j int, _ *gen.Rng) {
			v.enc[i].P.VG, v.enc[i].P.VH = v.enc[i].P.VH, v.enc[i].P.VG
		}},
		c13Mut{class: "swap:C<->R", f: func(s *c13Sess, v *c13View, i, j int, _ *gen.Rng) {
			v.enc[i].P.C, v.enc[i].P.R = v.enc[i].P.R, v.enc[i].P.C
		}},
	)
	// a cheating dealer without a consistent share: simulated sigma-protocol transcript (c, r chosen
	// first, commitments solved for) for a wrong encrypted value; the DLEQ equations hold, only the
	// Fiat-Shamir binding of the challenge can reject it
	ms = append(ms, c13Mut{class: "forged:simulated-proof", f: func(s *c13Sess, v *c13View, i, j int, rng *gen.Rng) {
		g := s.g
		c, rr := g.Scalar().Pick(rng.Stream()), g.Scalar().Pick(rng.Stream())
		V := g.Point().Add(v.enc[i].S.V, g.Point().Base())
		VG := g.Point().Add(g.Point().Mul(rr, v.H), g.Point().Mul(c, s.sH[i]))
		VH := g.Point().Add(g.Point().Mul(rr, v.X[i]), g.Point().Mul(c, V))
		v.enc[i].S.V, v.enc[i].P = V, dleq.Proof{C: c, R: rr, VG: VG, VH: VH}
	}})
	return ms
}

func c13IndexMuts(sel func(v *c13View) []*pvss.PubVerShare) []c13Mut {
	return []c13Mut{
		{class: "S.I:=other-trustee", f: func(s *c13Sess, v *c13View, i, j int, _ *gen.Rng) { sel(v)[i].S.I = uint32(j) }},
		{class: "S.I:=n", f: func(s *c13Sess, v *c13View, i, j int, _ *gen.Rng) { sel(v)[i].S.I = uint32(s.n) }},
		{class: "S.I:=2^31", f: func(s *c13Sess, v *c13View, i, j int, _ *gen.Rng) { sel(v)[i].S.I = 1 << 31 }},
	}
}

func c13DecMuts(s *c13Sess) []c13Mut {
	var ms []c13Mut
	type pf struct {
		name string
		tors bool
		get  func(v *c13View, i int) *kyber.Point
	}
	fields := []pf{
		{"S.V", true, func(v *c13View, i int) *kyber.Point { return &v.dec[i].S.V }},
		{"P.VG", true, func(v *c13View, i int) *kyber.Point { return &v.dec[i].P.VG }},
		{"P.VH", true, func(v *c13View, i int) *kyber.Point { return &v.dec[i].P.VH }},
		{"key", true, func(v *c13View, i int) *kyber.Point { return &v.X[i] }},
		{"enc.S.V", true, func(v *c13View, i int) *kyber.Point { return &v.enc[i].S.V }},
		{"G", false, func(v *c13View, i int) *kyber.Point { return &v.G }},
	}
	for _, fl := range fields {
		fl := fl
		for _, k := range c13PointKinds(s.fam, fl.tors) {
			k := k
			ms = append(ms, c13Mut{class: fl.name + ":" + k.name, tors: k.tors, f: func(s *c13Sess, v *c13View, i, j int, rng *gen.Rng) {
				p := fl.get(v, i)
				*p = k.f(s, *p, rng)
			}})
		}
	}
	for _, k := range c13ScalarKinds() {
		k := k
		ms = append(ms, c13Mut{class: "P.C:" + k.name, f: func(s *c13Sess, v *c13View, i, j int, rng *gen.Rng) {
			v.dec[i].P.C = k.f(s.g, v.dec[i].P.C, rng)
		}})
		ms = append(ms, c13Mut{class: "P.R:" + k.name, f: func(s *c13Sess, v *c13View, i, j int, rng *gen.Rng) {
			v.dec[i].P.R = k.f(s.g, v.dec[i].P.R, rng)
		}})
	}
	ms = append(ms, c13IndexMuts(func(v *c13View) []*pvss.PubVerShare { return v.dec })...)
	ms = append(ms,
		c13Mut{class: "swap:share", swap: true, f: func(s *c13Sess, v *c13View, i, j int, _ *gen.Rng) { v.dec[i], v.dec[j] = v.dec[j], v.dec[i] }},
		c13Mut{class: "swap:proof", swap: true, f: func(s *c13Sess, v *c13View, i, j int, _ *gen.Rng) { v.dec[i].P, v.dec[j].P = v.dec[j].P, v.dec[i].P }},
		c13Mut{class: "swap:key", swap: true, f: func(s *c13Sess, v *c13View, i, j int, _ *gen.Rng) { v.X[i], v.X[j] = v.X[j], v.X[i] }},
		c13Mut{class: "swap:S.I", swap: true, f: func(s *c13Sess, v *c13View, i, j int, _ *gen.Rng) {
			v.dec[i].S.I, v.dec[j].S.I = v.dec[j].S.I, v.dec[i].S.I
		}},
		c13Mut{class: "swap:S.V", swap: true, f: func(s *c13Sess, v *c13View, i, j int, _ *gen.Rng) {
			v.dec[i].S.V, v.dec[j].S.V = v.dec[j].S.V, v.dec[i].S.V
		}},
		c13Mut{class: "swap:P.R", swap: true, f: func(s *c13Sess, v *c13View, i, j int, _ *gen.Rng) {
			v.dec[i].P.R, v.dec[j].P.R = v.dec[j].P.R, v.dec[i].P.R
		}},
		c13Mut{class: "swap:enc-share", swap: true, f: func(s *c13Sess, v *c13View, i, j int, _ *gen.Rng) { v.enc[i], v.enc[j] = v.enc[j], v.enc[i] }},
		c13Mut{class: "swap:VG<->VH", f: func(s *c13Sess, v *c13View, i, j int, _ *gen.Rng) {
			v.dec[i].P.VG, v.dec[i].P.VH = v.dec[i].P.VH, v.dec[i].P.VG
		}},
		c13Mut{class: "dec:=enc", f: func(s *c13Sess, v *c13View, i, j int, _ *gen.Rng) { v.dec[i] = c13cpShare(s.g, v.enc[i]) }},
	)
	// a cheating trustee: wrong decrypted value with a simulated transcript (equations hold, challenge unbound)
	ms = append(ms, c13Mut{class: "forged:simulated-proof", f: func(s *c13Sess, v *c13View, i, j int, rng *gen.Rng) {
		g := s.g
		c, rr := g.Scalar().Pick(rng.Stream()), g.Scalar().Pick(rng.Stream())
		V := g.Point().Pick(rng.Stream())
		VG := g.Point().Add(g.Point().Mul(rr, v.G), g.Point().Mul(c, v.X[i]))
		VH := g.Point().Add(g.Point().Mul(rr, V), g.Point().Mul(c, v.enc[i].S.V))
		v.dec[i].S.V, v.dec[i].P = V, dleq.Proof{C: c, R: rr, VG: VG, VH: VH}
	}})
	return ms
}

// ---- expectations ------------------------------------------------------------

const (
	c13Free = iota
	c13MustPass
	c13MustFail
)

func c13proofSame(a, b *pvss.PubVerShare) bool {
	return c13same(a.P.C, b.P.C) && c13same(a.P.R, b.P.R) && c13same(a.P.VG, b.P.VG) && c13same(a.P.VH, b.P.VH)
}

func (s *c13Sess) pickIJ() (int, int) {
	i := s.rng.IntN(s.n)
	j := (i + 1 + s.rng.IntN(s.n-1)) % s.n
	return i, j
}

// mutEnc runs the distribution-phase mutation matrix.
func (s *c13Sess) mutEnc(r *mon.R) {
	g, o, n := s.g, s.o, s.n
	for mi, m := range c13EncMuts(s) {
		i, j := s.pickIJ()
		if !s.take(r, 16, s.n*s.t) {
			continue
		}
		v := o.clone(g)
		m.f(s, v, i, j, s.rng)
		class := "enc/" + m.class
		tag := fmt.Sprintf("%s/%s/i=%d", s.id, class, i)
		if m.swap {
			tag += fmt.Sprintf("/j=%d", j)
		}
		// what the verifier derives from what it received
		pub := s.pubPoly(v)
		sH := make([]kyber.Point, n)
		for k := 0; k < n; k++ {
			sH[k] = pub.Eval(v.enc[k].S.I).V
		}
		chal := c13RefChallenge(g, s.fam.q, v.commits, v.enc)
		chalSame := c13same(chal, s.chal)
		hSame := c13same(v.H, o.H)
		exp := make([]int, n)
		anyAltered := false
		for k := 0; k < n; k++ {
			untouched := hSame && c13same(v.X[k], o.X[k]) && c13same(sH[k], s.sH[k]) && c13same(v.enc[k].S.V, o.enc[k].S.V) && c13proofSame(v.enc[k], o.enc[k])
			switch {
			case !untouched:
				exp[k] = c13MustFail
				anyAltered = true
			case v.enc[k].S.I != o.enc[k].S.I:
				// index changed but the evaluated commitment did not (t=1, constant polynomial): the
				// index carries no information; neither acceptance nor refusal is demanded
				exp[k] = c13Free
			case chalSame:
				exp[k] = c13MustPass
			default:
				exp[k] = c13Free
			}
		}
		if !anyAltered {
			// the mutation was a no-op on this session (e.g. negating the identity, S.I change with t=1):
			// everything must still verify; counted as trivial
			r.NoteAdd("mutations without effect (judged as honest)", 1)
		}
		witness := func(extra map[string]any) map[string]any {
			e := map[string]any{"mutation": m.class, "i": i, "j": j, "expected_challenge": c13hex(chal), "challenge_unchanged": chalSame, "expectation(0=free,1=pass,2=fail)": exp}
			for k, x := range extra {
				e[k] = x
			}
			return e
		}
		if mi%7 == 0 {
			r.SampleClass("enc:"+m.class, map[string]any{"kind": "mutation", "phase": "enc", "job": s.id, "mutation": m.class, "i": i, "j": j, "expectation(0=free,1=pass,2=fail)": exp, "challenge_unchanged": chalSame})
		}
		ver := s.fam.suite(s.rng)
		// single-item API: touched indices plus two others
		idx := map[int]bool{i: true, s.rng.IntN(n): true, s.rng.IntN(n): true}
		if m.swap {
			idx[j] = true
		}
		single := make(map[int]bool)
		for _, k := range c13sorted(idx) {
			err := pvss.VerifyEncShare(ver, c13cpP(g, v.H), c13cpP(g, v.X[k]), c13cpP(g, sH[k]), c13cpS(g, chal), c13cpShare(g, v.enc[k]))
			single[k] = err == nil
			r.Eval(class+"/VerifyEncShare", fmt.Sprintf("%s/k=%d", tag, k), exp[k] == c13MustFail)
			if err == nil && exp[k] == c13MustFail {
				what := "altered-accepted"
				s.viol(r, "VerifyEncShare", class, what, fmt.Sprintf("encrypted share at position %d verifies although %s was applied (n=%d t=%d)", k, m.class, n, s.t), v, witness(map[string]any{"position": k}))
			}
			if err != nil && exp[k] == c13MustPass {
				s.viol(r, "VerifyEncShare", class, "untouched-rejected", fmt.Sprintf("untouched encrypted share %d rejected after %s elsewhere (challenge unchanged): %v", k, m.class, err), v, witness(map[string]any{"position": k}))
			}
		}
		// batch API
		{
			Xb, eb := c13cpPs(g, v.X), c13cpShares(g, v.enc)
			K, E, err := pvss.VerifyEncShareBatch(ver, c13cpP(g, v.H), Xb, c13cpPs(g, sH), s.pubPoly(v), eb)
			r.Eval(class+"/VerifyEncShareBatch", tag, anyAltered)
			if err != nil {
				s.viol(r, "VerifyEncShareBatch", class, "error", "batch verification returned an error on equal-length inputs: "+err.Error(), v, witness(nil))
			} else if got, msg := c13mapBatch(eb, E, Xb, K); msg != "" {
				s.viol(r, "VerifyEncShareBatch", class, "malformed", msg, v, witness(nil))
			} else {
				in := map[int]bool{}
				for _, k := range got {
					in[k] = true
				}
				for k := 0; k < n; k++ {
					if in[k] && exp[k] == c13MustFail {
						s.viol(r, "VerifyEncShareBatch", class, "altered-included", fmt.Sprintf("batch result contains position %d although %s was applied", k, m.class), v, witness(map[string]any{"position": k, "batch": got}))
					}
					if !in[k] && exp[k] == c13MustPass {
						s.viol(r, "VerifyEncShareBatch", class, "untouched-dropped", fmt.Sprintf("batch result lacks untouched position %d after %s (challenge unchanged)", k, m.class), v, witness(map[string]any{"position": k, "batch": got}))
					}
					if sv, ok := single[k]; ok && sv != in[k] {
						s.viol(r, "VerifyEncShareBatch", class, "differs-from-single", fmt.Sprintf("position %d: single-item verification says %v, batch says %v", k, sv, in[k]), v, witness(map[string]any{"position": k, "batch": got}))
					}
				}
				if len(got) == 0 {
					r.NoteAdd("enc batch results empty (global challenge changed or all altered)", 1)
				} else {
					r.NoteAdd("enc batch results non-empty", 1)
				}
			}
		}
		// the trustee at the touched position: DecShare must refuse / accept accordingly
		{
			tr := s.fam.suite(s.rng)
			d, err := pvss.DecShare(tr, c13cpP(g, v.H), c13cpP(g, v.X[i]), c13cpP(g, sH[i]), c13cpS(g, s.x[i]), c13cpS(g, chal), c13cpShare(g, v.enc[i]))
			r.Eval(class+"/DecShare", tag, exp[i] == c13MustFail)
			if err == nil && exp[i] == c13MustFail {
				s.viol(r, "DecShare", class, "altered-accepted", fmt.Sprintf("DecShare decrypts position %d although %s was applied", i, m.class), v, witness(map[string]any{"position": i, "dec": c13shareHex(d)}))
			}
			if err != nil && exp[i] == c13MustPass {
				s.viol(r, "DecShare", class, "untouched-rejected", fmt.Sprintf("DecShare refuses untouched position %d after %s: %v", i, m.class, err), v, witness(map[string]any{"position": i}))
			}
		}
		// stale challenge: the verifier still holds the challenge of the honest data, so only the
		// DLEQ equations stand between the altered item and acceptance (not judged for small-order shifts)
		if !chalSame && !m.tors {
			for _, k := range c13sorted(idx) {
				if exp[k] != c13MustFail {
					continue
				}
				err := pvss.VerifyEncShare(ver, c13cpP(g, v.H), c13cpP(g, v.X[k]), c13cpP(g, sH[k]), c13cpS(g, s.chal), c13cpShare(g, v.enc[k]))
				r.Eval(class+"/VerifyEncShare(stale-challenge)", fmt.Sprintf("%s/k=%d", tag, k), true)
				if err == nil {
					s.viol(r, "VerifyEncShare", class, "altered-accepted-under-original-challenge", fmt.Sprintf("position %d verifies under the original challenge although %s was applied: the DLEQ equations did not catch it", k, m.class), v, witness(map[string]any{"position": k}))
				}
			}
		}
	}
	// verifier-side expected challenge wrong, data untouched
	for _, k := range c13ScalarKinds() {
		i := s.rng.IntN(n)
		bad := k.f(g, c13cpS(g, s.chal), s.rng)
		differs := !c13same(bad, s.chal)
		class := "enc/expected-challenge:" + k.name
		tag := fmt.Sprintf("%s/%s/i=%d", s.id, class, i)
		ver := s.fam.suite(s.rng)
		err := pvss.VerifyEncShare(ver, c13cpP(g, o.H), c13cpP(g, o.X[i]), c13cpP(g, s.sH[i]), c13cpS(g, bad), c13cpShare(g, o.enc[i]))
		r.Eval(class+"/VerifyEncShare", tag, differs)
		if differs && err == nil {
			s.viol(r, "VerifyEncShare", class, "altered-accepted", fmt.Sprintf("share %d verifies against an expected global challenge that is not the one of the data", i), o, map[string]any{"position": i, "expected_challenge_given": c13hex(bad)})
		}
		_, err = pvss.DecShare(ver, c13cpP(g, o.H), c13cpP(g, o.X[i]), c13cpP(g, s.sH[i]), c13cpS(g, s.x[i]), c13cpS(g, bad), c13cpShare(g, o.enc[i]))
		r.Eval(class+"/DecShare", tag, differs)
		if differs && err == nil {
			s.viol(r, "DecShare", class, "altered-accepted", fmt.Sprintf("DecShare of share %d accepts an expected global challenge that is not the one of the data", i), o, map[string]any{"position": i, "expected_challenge_given": c13hex(bad)})
		}
	}
}

func c13sorted(m map[int]bool) []int {
	var out []int
	for k := range m {
		out = append(out, k)
	}
	sort.Ints(out)
	return out
}

// mutDec runs the reconstruction-phase mutation matrix.
func (s *c13Sess) mutDec(r *mon.R) {
	g, o, n, t := s.g, s.o, s.n, s.t
	for mi, m := range c13DecMuts(s) {
		i, j := s.pickIJ()
		if !s.take(r, 6, s.n) {
			continue
		}
		v := o.clone(g)
		m.f(s, v, i, j, s.rng)
		class := "dec/" + m.class
		tag := fmt.Sprintf("%s/%s/i=%d", s.id, class, i)
		if m.swap {
			tag += fmt.Sprintf("/j=%d", j)
		}
		gSame := c13same(v.G, o.G)
		exp := make([]int, n)
		var valid []int // positions that must verify
		anyAltered := false
		for k := 0; k < n; k++ {
			same := gSame && c13same(v.X[k], o.X[k]) && c13same(v.enc[k].S.V, o.enc[k].S.V) && c13same(v.dec[k].S.V, o.dec[k].S.V) && c13proofSame(v.dec[k], o.dec[k])
			switch {
			case !same:
				exp[k] = c13MustFail
			case v.dec[k].S.I != o.dec[k].S.I && t > 1:
				exp[k] = c13MustFail // the share would be interpolated at another abscissa
			case v.dec[k].S.I != o.dec[k].S.I:
				exp[k] = c13Free // t=1: the index carries no information
			case v.enc[k].S.I != v.dec[k].S.I:
				// the encrypted share was relabelled (swap of equal-valued shares): the pair is inconsistent;
				// rejecting it is right, accepting it is harmless only because all values coincide
				exp[k] = c13Free
			default:
				exp[k] = c13MustPass
				valid = append(valid, k)
			}
			if exp[k] == c13MustFail {
				anyAltered = true
			}
		}
		if !anyAltered {
			r.NoteAdd("mutations without effect (judged as honest)", 1)
		}
		witness := func(extra map[string]any) map[string]any {
			e := map[string]any{"mutation": m.class, "i": i, "j": j, "expectation(0=free,1=pass,2=fail)": exp}
			for k, x := range extra {
				e[k] = x
			}
			return e
		}
		if mi%7 == 0 {
			r.SampleClass("dec:"+m.class, map[string]any{"kind": "mutation", "phase": "dec", "job": s.id, "mutation": m.class, "i": i, "j": j, "expectation(0=free,1=pass,2=fail)": exp})
		}
		ver := s.fam.suite(s.rng)
		idx := map[int]bool{i: true, s.rng.IntN(n): true, s.rng.IntN(n): true}
		if m.swap {
			idx[j] = true
		}
		single := make(map[int]bool)
		for _, k := range c13sorted(idx) {
			err := pvss.VerifyDecShare(ver, c13cpP(g, v.G), c13cpP(g, v.X[k]), c13cpShare(g, v.enc[k]), c13cpShare(g, v.dec[k]))
			single[k] = err == nil
			r.Eval(class+"/VerifyDecShare", fmt.Sprintf("%s/k=%d", tag, k), exp[k] == c13MustFail)
			if err == nil && exp[k] == c13MustFail {
				s.viol(r, "VerifyDecShare", class, "altered-accepted", fmt.Sprintf("decrypted share at position %d verifies although %s was applied (n=%d t=%d)", k, m.class, n, t), v, witness(map[string]any{"position": k}))
			}
			if err != nil && exp[k] == c13MustPass {
				s.viol(r, "VerifyDecShare", class, "untouched-rejected", fmt.Sprintf("untouched decrypted share %d rejected after %s elsewhere: %v", k, m.class, err), v, witness(map[string]any{"position": k}))
			}
		}
		{
			db := c13cpShares(g, v.dec)
			D, err := pvss.VerifyDecShareBatch(ver, c13cpP(g, v.G), c13cpPs(g, v.X), c13cpShares(g, v.enc), db)
			r.Eval(class+"/VerifyDecShareBatch", tag, anyAltered)
			if err != nil {
				s.viol(r, "VerifyDecShareBatch", class, "error", "batch verification returned an error on equal-length inputs: "+err.Error(), v, witness(nil))
			} else if got, msg := c13mapBatch(db, D, nil, nil); msg != "" {
				s.viol(r, "VerifyDecShareBatch", class, "malformed", msg, v, witness(nil))
			} else {
				in := map[int]bool{}
				for _, k := range got {
					in[k] = true
				}
				for k := 0; k < n; k++ {
					if in[k] && exp[k] == c13MustFail {
						s.viol(r, "VerifyDecShareBatch", class, "altered-included", fmt.Sprintf("batch result contains position %d although %s was applied", k, m.class), v, witness(map[string]any{"position": k, "batch": got}))
					}
					if !in[k] && exp[k] == c13MustPass {
						s.viol(r, "VerifyDecShareBatch", class, "untouched-dropped", fmt.Sprintf("batch result lacks untouched position %d after %s", k, m.class), v, witness(map[string]any{"position": k, "batch": got}))
					}
					if sv, ok := single[k]; ok && sv != in[k] {
						s.viol(r, "VerifyDecShareBatch", class, "differs-from-single", fmt.Sprintf("position %d: single-item verification says %v, batch says %v", k, sv, in[k]), v, witness(map[string]any{"position": k, "batch": got}))
					}
				}
			}
		}
		// recovery over (a) everything, (b) the altered ones plus exactly t-1 untouched, (c) plus exactly t untouched
		rec := func(sub string, idx []int) {
			nmin, nmax := 0, 0 // untouched positions among idx: certainly valid / possibly valid (free ones)
			seen := map[int]bool{}
			for _, k := range idx {
				if seen[k] {
					continue
				}
				seen[k] = true
				switch exp[k] {
				case c13MustPass:
					nmin++
					nmax++
				case c13Free:
					nmax++
				}
			}
			p, err := s.recoverCall(v, idx)
			r.Eval(class+"/RecoverSecret/"+sub, fmt.Sprintf("%s/%v", tag, idx), anyAltered)
			switch {
			case err == nil && nmax < t:
				s.viol(r, "RecoverSecret", class, "not-refused", fmt.Sprintf("recovery over positions %v returned a value although only %d < t=%d untouched shares are present", idx, nmax, t), v, witness(map[string]any{"positions": idx, "got": c13hex(p), "is_secret": c13same(p, s.SG)}))
			case err == nil && !c13same(p, s.SG):
				s.viol(r, "RecoverSecret", class, "wrong-secret", fmt.Sprintf("recovery over positions %v (with %s applied) returned a point other than secret*G: an altered share was used", idx, m.class), v, witness(map[string]any{"positions": idx, "got": c13hex(p), "want": c13hex(s.SG)}))
			case err != nil && nmin >= t:
				s.viol(r, "RecoverSecret", class, "refused-with-t-valid", fmt.Sprintf("recovery refused although %d >= t=%d untouched shares are among positions %v: %v", nmin, t, idx, err), v, witness(map[string]any{"positions": idx}))
			}
		}
		rec("all", s.rng.Perm(n))
		var alt []int
		for k := 0; k < n; k++ {
			if exp[k] != c13MustPass {
				alt = append(alt, k)
			}
		}
		if len(alt) > 0 {
			pv := append([]int(nil), valid...)
			s.rng.Shuffle(len(pv), func(a, b int) { pv[a], pv[b] = pv[b], pv[a] })
			if len(pv) >= t-1 {
				idx := append(append([]int(nil), alt...), pv[:t-1]...)
				s.rng.Shuffle(len(idx), func(a, b int) { idx[a], idx[b] = idx[b], idx[a] })
				rec("altered+(t-1)", idx)
			}
			if len(pv) >= t {
				idx := append(append([]int(nil), alt...), pv[:t]...)
				s.rng.Shuffle(len(idx), func(a, b int) { idx[a], idx[b] = idx[b], idx[a] })
				rec("altered+t", idx)
			}
		}
	}
}

// take decides (from the session rng) whether a mutation of the matrix is run in this
// session: always in the thorough tier; in the quick tier with probability min(1, num/den)
// so that the large sessions (every view costs O(n*t) multiplications) stay affordable.
func (s *c13Sess) take(r *mon.R, num, den int) bool {
	x := s.rng.IntN(den)
	return r.Thorough() || x < num
}

// ---- DecShareBatch: one trustee, several independent sessions -------------------

func c13Multi(r *mon.R, f *c13Fam, rep int, id string, rng *gen.Rng) {
	g := f.suite(rng)
	n := 2 + rng.IntN(5)
	t := 1 + rng.IntN(n)
	m := 2 + rng.IntN(4) // sessions
	x, X := c13Keys(g, n, rng)
	H, _ := c13PickBase(g, rep, rng)
	me := rng.IntN(n)
	viol := func(what, msg string, extra map[string]any) {
		d := map[string]any{"family": f.name, "job": id, "seed": r.Seed, "n": n, "t": t, "sessions": m, "trustee": me, "private_key": c13hex(x[me]), "H": c13hex(H)}
		for k, e := range extra {
			d[k] = e
		}
		r.Violation("C13/"+f.name+"/DecShareBatch/"+what, msg, d)
	}
	var Xs, sHs []kyber.Point
	var chals []kyber.Scalar
	var encs []*pvss.PubVerShare
	for a := 0; a < m; a++ {
		secret, _ := c13PickSecret(f, g, rep+a, rng)
		enc, pub, err := pvss.EncShares(f.suite(rng), c13cpP(g, H), c13cpPs(g, X), secret, uint32(t))
		if err != nil {
			viol("honest/EncShares-error", err.Error(), nil)
			return
		}
		_, commits := pub.Info()
		Xs = append(Xs, c13cpP(g, X[me]))
		sHs = append(sHs, pub.Eval(enc[me].S.I).V)
		chals = append(chals, c13RefChallenge(g, f.q, commits, enc))
		encs = append(encs, c13cpShare(g, enc[me]))
	}
	// choose the sessions to tamper with and how
	kinds := []string{"none", "S.V", "P.C", "P.R", "P.VG", "P.VH", "expected-challenge", "sH", "key", "swap-with-next-session"}
	bad := make([]bool, m)
	how := make([]string, m)
	pk := c13PointKinds(f, false)
	sk := c13ScalarKinds()
	ss := &c13Sess{fam: f, g: g}
	for a := 0; a < m; a++ {
		how[a] = "none"
	}
	for a := 0; a < m; a++ {
		if how[a] != "none" {
			continue
		}
		kd := kinds[rng.IntN(len(kinds))]
		if rep%5 == 0 {
			kd = "none"
		}
		pkf := pk[rng.IntN(len(pk))]
		skf := sk[rng.IntN(len(sk))]
		mutP := func(p kyber.Point) kyber.Point {
			q := pkf.f(ss, p, rng)
			if !c13same(p, q) {
				bad[a] = true
			}
			return q
		}
		mutS := func(x kyber.Scalar) kyber.Scalar {
			y := skf.f(g, x, rng)
			if !c13same(x, y) {
				bad[a] = true
			}
			return y
		}
		switch kd {
		case "S.V":
			encs[a].S.V = mutP(encs[a].S.V)
			kd += ":" + pkf.name
		case "P.VG":
			encs[a].P.VG = mutP(encs[a].P.VG)
			kd += ":" + pkf.name
		case "P.VH":
			encs[a].P.VH = mutP(encs[a].P.VH)
			kd += ":" + pkf.name
		case "sH":
			sHs[a] = mutP(sHs[a])
			kd += ":" + pkf.name
		case "key":
			Xs[a] = mutP(Xs[a])
			kd += ":" + pkf.name
		case "P.C":
			encs[a].P.C = mutS(encs[a].P.C)
			kd += ":" + skf.name
		case "P.R":
			encs[a].P.R = mutS(encs[a].P.R)
			kd += ":" + skf.name
		case "expected-challenge":
			chals[a] = mutS(chals[a])
			kd += ":" + skf.name
		case "swap-with-next-session":
			if a+1 < m {
				if !c13same(encs[a].S.V, encs[a+1].S.V) || !c13proofSame(encs[a], encs[a+1]) {
					bad[a], bad[a+1] = true, true
				}
				encs[a], encs[a+1] = encs[a+1], encs[a]
				how[a+1] = "swapped-with-previous"
			} else {
				kd = "none"
			}
		}
		how[a] = kd
	}
	Xb, eb := c13cpPs(g, Xs), c13cpShares(g, encs)
	chb := make([]kyber.Scalar, m)
	for a := range chb {
		chb[a] = c13cpS(g, chals[a])
	}
	K, E, D, err := pvss.DecShareBatch(f.suite(rng), c13cpP(g, H), Xb, c13cpPs(g, sHs), c13cpS(g, x[me]), chb, eb)
	r.Op("pvss.DecShareBatch")
	nbad := 0
	for _, b := range bad {
		if b {
			nbad++
		}
	}
	r.Eval("multi/DecShareBatch", fmt.Sprintf("%s/%v", id, how), nbad > 0)
	r.SampleClass("multi:"+f.name, map[string]any{"kind": "DecShareBatch over independent sessions", "job": id, "tampering": how, "tampered": bad})
	ext := map[string]any{"tampering": how, "tampered": bad}
	var es []any
	for _, e := range encs {
		es = append(es, c13shareHex(e))
	}
	ext["enc"] = es
	if err != nil {
		viol("error", "DecShareBatch returned an error on equal-length inputs: "+err.Error(), ext)
		return
	}
	got, msg := c13mapBatch(eb, E, Xb, K)
	if msg != "" || len(D) != len(E) {
		viol("malformed", fmt.Sprintf("%s (|K|=%d |E|=%d |D|=%d)", msg, len(K), len(E), len(D)), ext)
		return
	}
	ext["kept"] = got
	in := map[int]bool{}
	for pos, a := range got {
		in[a] = true
		// the decrypted share returned for session a must be a correct decryption with a valid proof
		d := D[pos]
		if d == nil || !c13same(g.Point().Mul(x[me], d.S.V), encs[a].S.V) {
			viol("wrong-decryption", fmt.Sprintf("decrypted share returned for session %d is not x^-1 * encrypted share", a), ext)
		} else if e := pvss.VerifyDecShare(f.suite(rng), g.Point().Base(), c13cpP(g, X[me]), c13cpShare(g, encs[a]), c13cpShare(g, d)); e != nil && !bad[a] {
			viol("decrypted-share-invalid", fmt.Sprintf("decrypted share returned for untouched session %d does not verify: %v", a, e), ext)
		}
	}
	for a := 0; a < m; a++ {
		if bad[a] && in[a] {
			viol("altered-included/"+c13classOf(how[a]), fmt.Sprintf("DecShareBatch kept session %d although its input was tampered with (%s)", a, how[a]), ext)
		}
		if !bad[a] && !in[a] {
			viol("untouched-dropped", fmt.Sprintf("DecShareBatch dropped untouched session %d (%s)", a, how[a]), ext)
		}
	}
	// different lengths must be refused
	if _, _, _, err := pvss.DecShareBatch(f.suite(rng), c13cpP(g, H), c13cpPs(g, Xs)[:m-1], c13cpPs(g, sHs), c13cpS(g, x[me]), chb, c13cpShares(g, encs)); err == nil {
		viol("length-mismatch-accepted", "DecShareBatch accepted key and share lists of different lengths", ext)
	}
	r.Eval("multi/length-mismatch", id, true)
}

func c13classOf(how string) string {
	for i := 0; i < len(how); i++ {
		if how[i] == ':' {
			return how[:i]
		}
	}
	return how
}

// ---- DLEQ proofs on their own ---------------------------------------------------

func c13Dleq(r *mon.R, f *c13Fam, rep int, id string, rng *gen.Rng) {
	g := f.suite(rng)
	one := big.NewInt(1)
	var x kyber.Scalar
	var xc string
	switch rep % 5 {
	case 0:
		x, xc = g.Scalar().Pick(rng.Stream()), "random"
	case 1:
		x, xc = g.Scalar().Zero(), "0"
	case 2:
		x, xc = g.Scalar().One(), "1"
	case 3:
		x, xc = c13ScalarFromBig(g, f.q, new(big.Int).Sub(f.q, one)), "q-1"
	default:
		x, xc = c13ScalarFromBig(g, f.q, gen.Pick(rng, f.edge)), "edge"
	}
	G, gc := c13PickBase(g, rep/5, rng)
	H, hc := c13PickBase(g, rep/15, rng)
	viol := func(api, class, what, msg string, extra map[string]any) {
		d := map[string]any{"family": f.name, "job": id, "seed": r.Seed, "x": c13hex(x), "x_class": xc, "G": c13hex(G), "H": c13hex(H), "G_class": gc, "H_class": hc}
		for k, e := range extra {
			d[k] = e
		}
		r.Violation("C13/"+f.name+"/"+api+"/"+c13KeyClass("dleq/"+class)+"/"+what, msg, d)
	}
	p, xG, xH, err := dleq.NewDLEQProof(f.suite(rng), c13cpP(g, G), c13cpP(g, H), c13cpS(g, x))
	r.Op("dleq.NewDLEQProof", "dleq.Proof.Verify")
	r.Eval("dleq/honest", id, true)
	if err != nil {
		viol("dleq.NewDLEQProof", "honest", "error", err.Error(), nil)
		return
	}
	if !c13same(xG, g.Point().Mul(x, G)) || !c13same(xH, g.Point().Mul(x, H)) {
		viol("dleq.NewDLEQProof", "honest", "wrong-points", "returned xG/xH are not x*G, x*H", map[string]any{"xG": c13hex(xG), "xH": c13hex(xH)})
		return
	}
	type tup struct {
		C, R               kyber.Scalar
		VG, VH, G, H, A, B kyber.Point // A = xG, B = xH
	}
	orig := tup{p.C, p.R, p.VG, p.VH, G, H, xG, xH}
	cp := func(t tup) tup {
		return tup{c13cpS(g, t.C), c13cpS(g, t.R), c13cpP(g, t.VG), c13cpP(g, t.VH), c13cpP(g, t.G), c13cpP(g, t.H), c13cpP(g, t.A), c13cpP(g, t.B)}
	}
	hexT := func(t tup) map[string]any {
		return map[string]any{"C": c13hex(t.C), "R": c13hex(t.R), "VG": c13hex(t.VG), "VH": c13hex(t.VH), "G": c13hex(t.G), "H": c13hex(t.H), "xG": c13hex(t.A), "xH": c13hex(t.B)}
	}
	same := func(a, b tup) bool {
		return c13same(a.C, b.C) && c13same(a.R, b.R) && c13same(a.VG, b.VG) && c13same(a.VH, b.VH) && c13same(a.G, b.G) && c13same(a.H, b.H) && c13same(a.A, b.A) && c13same(a.B, b.B)
	}
	verify := func(t tup) error {
		c := cp(t)
		pr := &dleq.Proof{C: c.C, R: c.R, VG: c.VG, VH: c.VH}
		return pr.Verify(f.suite(rng), c.G, c.H, c.A, c.B)
	}
	if err := verify(orig); err != nil {
		viol("dleq.Proof.Verify", "honest", "rejected", "honest proof rejected: "+err.Error(), map[string]any{"proof": hexT(orig)})
		return
	}
	ss := &c13Sess{fam: f, g: g}
	judge := func(class string, tors bool, mut tup, scalarsOnly bool) {
		changed := !same(mut, orig)
		// Verify checks VG = rG + c*xG and VH = rH + c*xH and (by design) does not recompute c.
		// If only C and R changed, the equations still hold exactly when (r'-r) + (c'-c)*x = 0
		// (e.g. x=0 with any c', or x=1 with C and R swapped): such a pair is another valid
		// transcript of the same statement and is not judged.
		free := false
		if scalarsOnly {
			d := g.Scalar().Mul(g.Scalar().Sub(mut.C, orig.C), x)
			d = g.Scalar().Add(d, g.Scalar().Sub(mut.R, orig.R))
			free = c13same(d, g.Scalar().Zero())
		}
		err := verify(mut)
		r.Eval("dleq/"+class, id, changed && !free)
		if !changed {
			if err != nil {
				viol("dleq.Proof.Verify", class, "unchanged-rejected", "a mutation without effect made the proof fail: "+err.Error(), map[string]any{"proof": hexT(mut)})
			}
			return
		}
		if free {
			r.NoteAdd("dleq: (C,R) changed to another valid transcript of the same statement (not judged)", 1)
			return
		}
		if err == nil {
			viol("dleq.Proof.Verify", class, "altered-accepted", "proof verifies although "+class+" changed a value", map[string]any{"proof": hexT(mut), "original": hexT(orig)})
		}
	}
	pfields := []struct {
		name string
		tors bool
		get  func(t *tup) *kyber.Point
	}{
		{"VG", true, func(t *tup) *kyber.Point { return &t.VG }},
		{"VH", true, func(t *tup) *kyber.Point { return &t.VH }},
		{"xG", true, func(t *tup) *kyber.Point { return &t.A }},
		{"xH", true, func(t *tup) *kyber.Point { return &t.B }},
		{"G", false, func(t *tup) *kyber.Point { return &t.G }},
		{"H", false, func(t *tup) *kyber.Point { return &t.H }},
	}
	for _, fl := range pfields {
		for _, k := range c13PointKinds(f, fl.tors) {
			m := cp(orig)
			pp := fl.get(&m)
			*pp = k.f(ss, *pp, rng)
			judge(fl.name+":"+k.name, k.tors, m, false)
		}
	}
	for _, k := range c13ScalarKinds() {
		m := cp(orig)
		m.C = k.f(g, m.C, rng)
		judge("C:"+k.name, false, m, true)
		m = cp(orig)
		m.R = k.f(g, m.R, rng)
		judge("R:"+k.name, false, m, true)
	}
	{
		m := cp(orig)
		m.VG, m.VH = m.VH, m.VG
		judge("swap:VG<->VH", false, m, false)
		m = cp(orig)
		m.A, m.B = m.B, m.A
		judge("swap:xG<->xH", false, m, false)
		m = cp(orig)
		m.G, m.H = m.H, m.G
		judge("swap:G<->H", false, m, false)
		m = cp(orig)
		m.C, m.R = m.R, m.C
		judge("swap:C<->R", false, m, true)
	}
	// proof for another secret on the same bases
	{
		y := g.Scalar().Add(x, g.Scalar().One())
		p2, _, _, err := dleq.NewDLEQProof(f.suite(rng), c13cpP(g, G), c13cpP(g, H), y)
		if err == nil {
			m := cp(orig)
			m.C, m.R, m.VG, m.VH = p2.C, p2.R, p2.VG, p2.VH
			judge("proof-of-x+1", false, m, false)
		}
	}
	if rep == 0 {
		r.SampleClass("dleq:"+f.name, map[string]any{"kind": "dleq", "job": id, "x_class": xc, "proof": hexT(orig)})
	}

	// batch constructor: per-item proofs share one challenge, verify item-wise, and do not verify cross-wise
	nb := 2 + rng.IntN(4)
	Gs := make([]kyber.Point, nb)
	Hs := make([]kyber.Point, nb)
	xs := make([]kyber.Scalar, nb)
	for i := range Gs {
		Gs[i], _ = c13PickBase(g, rng.IntN(3), rng)
		Hs[i] = g.Point().Pick(rng.Stream())
		xs[i] = g.Scalar().Pick(rng.Stream())
	}
	ps, aG, aH, err := dleq.NewDLEQProofBatch(f.suite(rng), c13cpPs(g, Gs), c13cpPs(g, Hs), xs)
	r.Op("dleq.NewDLEQProofBatch")
	r.Eval("dleq/batch-honest", id, true)
	if err != nil || len(ps) != nb || len(aG) != nb || len(aH) != nb {
		viol("dleq.NewDLEQProofBatch", "honest", "error", fmt.Sprintf("batch constructor failed: %v", err), nil)
		return
	}
	for i := 0; i < nb; i++ {
		if !c13same(ps[i].C, ps[0].C) {
			viol("dleq.NewDLEQProofBatch", "honest", "challenge-not-shared", fmt.Sprintf("proof %d has another challenge than proof 0", i), nil)
		}
		if !c13same(aG[i], g.Point().Mul(xs[i], Gs[i])) || !c13same(aH[i], g.Point().Mul(xs[i], Hs[i])) {
			viol("dleq.NewDLEQProofBatch", "honest", "wrong-points", fmt.Sprintf("item %d: returned xG/xH are not x*G, x*H", i), nil)
		}
		t0 := tup{ps[i].C, ps[i].R, ps[i].VG, ps[i].VH, Gs[i], Hs[i], aG[i], aH[i]}
		if e := verify(t0); e != nil {
			viol("dleq.Proof.Verify", "batch-honest", "rejected", fmt.Sprintf("batch proof %d rejected: %v", i, e), map[string]any{"proof": hexT(t0)})
		}
		j := (i + 1) % nb
		t1 := tup{ps[j].C, ps[j].R, ps[j].VG, ps[j].VH, Gs[i], Hs[i], aG[i], aH[i]}
		r.Eval("dleq/batch-cross-proof", fmt.Sprintf("%s/%d", id, i), true)
		if e := verify(t1); e == nil {
			viol("dleq.Proof.Verify", "batch-cross-proof", "altered-accepted", fmt.Sprintf("proof of item %d verifies for item %d", j, i), map[string]any{"proof": hexT(t1)})
		}
	}
	if _, _, _, err := dleq.NewDLEQProofBatch(f.suite(rng), c13cpPs(g, Gs), c13cpPs(g, Hs)[:nb-1], xs); err == nil {
		viol("dleq.NewDLEQProofBatch", "length-mismatch", "accepted", "lists of different lengths accepted", nil)
	}
	r.Eval("dleq/batch-length-mismatch", id, true)
	_ = mon.Hex
}
