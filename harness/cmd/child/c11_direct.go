package main

// C11, Pedersen DKG through the direct API: the harness carries the bundles between
// Deals -> ProcessDeals -> ProcessResponses -> ProcessJustifications of n real DistKeyGenerators,
// choosing the delivery order per recipient, and plays the Byzantine parties itself.

import (
	"fmt"

	dkgp "go.dedis.ch/kyber/v4/share/dkg/pedersen"

	"verif/internal/gen"
	"verif/internal/mon"
)

func c11Direct(r *mon.R) {
	r.SetRule("Pedersen DKG, direct API. Sessions = (fresh | resharing shape) x (n,t) x fast-sync x fault assignment x delivery variant, all derived from (seed, tier): " +
		"fault assignments are enumerated exhaustively (every party x every menu entry, at most n-t faulty) for groups of at most 4 nodes and sampled above; " +
		"one oracle judgement per (session, check, party/pair/subset). Non-trivial = the session has at least one Byzantine party, or a permuted delivery, or is a resharing.")
	r.Assume("Byzantine parties are played by the harness with the party's long-term key; every honest party has its own seeded suite and receives its own encode/decode copies of every bundle")
	r.Assume("broadcast channel: every honest party receives the same set of bundles of a phase before its next step, in an order of the harness's choosing (per recipient); in the direct API duplicates of a bundle are delivered only for response bundles and for duplicates a Byzantine sender itself broadcast")
	r.Assume("reference side: math/big Lagrange interpolation and power-sum evaluation of the commitments (scalars rebuilt from residues), Ed25519 group operations of kyber (C01/C02) for point arithmetic")
	r.Assume("non-completion of honest parties in a session with a Byzantine party is recorded (notes) but not a violation; thresholds t in [n/2+1, n] only")
	r.Op("dkg.NewDistKeyHandler", "DistKeyGenerator.Deals", "DistKeyGenerator.ProcessDeals", "DistKeyGenerator.ProcessResponses", "DistKeyGenerator.ProcessJustifications", "DistKeyGenerator.VerifSnapshot", "share.RecoverSecret", "PubPoly.Check")

	scns := c11pScenarios(r, "direct")
	st := c11pNewStats()
	mon.Parallel(len(scns), func(worker, i int) {
		scn := scns[i]
		if r.Only != "" && fmt.Sprint(i) != r.Only {
			return
		}
		r.Journal(worker, "C11 direct session %d: %s", i, scn.desc())
		s := c11pNewSess(r, "direct", scn, i, gen.New(r.Seed, "c11p-direct", i), nil)
		r.Guard(s.key("session"), map[string]any{"session": i, "scenario": scn.desc(), "seed": r.Seed}, func() { s.runDirect(st) })
	})
	st.flush(r, "direct")
}

type c11pDealMsg struct {
	from int
	b    *dkgp.DealBundle
}
type c11pRespMsg struct {
	from int
	b    *dkgp.ResponseBundle
}
type c11pJustMsg struct {
	from int
	b    *dkgp.JustificationBundle
}

// runDirect executes and judges one session through the direct API.
func (s *c11pSess) runDirect(st *c11pStats) {
	s.setupOldSharing()
	gens := make([]*dkgp.DistKeyGenerator, len(s.parties))
	cfgs := make([]*dkgp.Config, len(s.parties))
	for _, p := range s.parties {
		if !p.honest {
			continue
		}
		cfg := s.config(p)
		cfgs[p.id] = cfg
		var g *dkgp.DistKeyGenerator
		var err error
		if !s.guard("NewDistKeyHandler", map[string]any{"party": p.id}, func() { g, err = dkgp.NewDistKeyHandler(cfg) }) {
			return
		}
		if err != nil {
			s.viol("NewDistKeyHandler/error-on-valid-config", "NewDistKeyHandler refuses a valid configuration: "+err.Error(), map[string]any{"party": p.id})
			return
		}
		gens[p.id] = g
	}
	live := func(p *c11pParty) bool {
		o := s.out[p.id]
		return p.honest && o.err == nil && o.res == nil && !o.done
	}
	guard := func(call string, p *c11pParty, f func()) bool {
		return s.guard(call+"/"+s.scn.faultClass(), map[string]any{"party": p.id, "call": call}, f)
	}

	// ---- deal phase
	var deals []c11pDealMsg
	for _, p := range s.oldMembers() {
		if p.honest {
			var b *dkgp.DealBundle
			var err error
			if !guard("Deals", p, func() { b, err = gens[p.id].Deals() }) {
				s.out[p.id].err, s.out[p.id].stage = fmt.Errorf("panic"), "Deals"
				continue
			}
			if err != nil || b == nil {
				s.out[p.id].err, s.out[p.id].stage = fmt.Errorf("Deals: %v", err), "Deals"
				s.viol("Deals/error-at-honest-dealer", fmt.Sprintf("an honest dealer cannot produce its deals: %v", err), map[string]any{"party": p.id})
				continue
			}
			p.published = c11pPointClone(s.hs, b.Public[0])
			deals = append(deals, c11pDealMsg{p.id, b})
			s.note("party %d (dealer %d) deals", p.id, p.oldIdx)
		} else {
			for _, b := range s.byzDeals(p) {
				deals = append(deals, c11pDealMsg{p.id, b})
				s.note("BYZ party %d broadcasts %s", p.id, c11pDealSummary(b))
			}
		}
	}
	coin := gen.New(s.r.Seed, "c11p-direct-coins", s.idx)

	// ---- response phase
	var resps []c11pRespMsg
	for _, p := range s.parties {
		if !live(p) {
			continue
		}
		if p.newIdx < 0 && coin.IntN(2) == 0 {
			// a leaving node need not look at the deals at all
			s.note("party %d (leaving) skips ProcessDeals", p.id)
			continue
		}
		cfg := cfgs[p.id]
		includeOwn := coin.IntN(2) == 0
		var list []*dkgp.DealBundle
		var msgs []c11pDealMsg
		for _, m := range deals {
			if m.from == p.id && !includeOwn {
				continue
			}
			msgs = append(msgs, m)
		}
		var groups []string
		for _, m := range msgs {
			groups = append(groups, s.groupOf(m.from))
		}
		for _, k := range s.order("deal", p.id, len(msgs), false, groups) {
			list = append(list, c11pCloneDeal(cfg.Suite.(c11pSuite), msgs[k].b))
		}
		if s.scn.dv > 0 && coin.IntN(4) == 0 {
			// a nil entry in the list handed to the API must simply be skipped
			at := coin.IntN(len(list) + 1)
			list = append(list[:at:at], append([]*dkgp.DealBundle{nil}, list[at:]...)...)
		}
		var rb *dkgp.ResponseBundle
		var err error
		if !guard("ProcessDeals", p, func() { rb, err = gens[p.id].ProcessDeals(list) }) {
			s.out[p.id].err, s.out[p.id].stage = fmt.Errorf("panic"), "ProcessDeals"
			continue
		}
		if err != nil {
			s.out[p.id].err, s.out[p.id].stage = err, "ProcessDeals"
			s.note("party %d ProcessDeals error: %v", p.id, err)
			continue
		}
		if rb != nil {
			resps = append(resps, c11pRespMsg{p.id, rb})
			s.note("party %d responds %s", p.id, c11pRespString(rb))
			s.checkHonestResponse(p, rb)
		}
	}
	for _, p := range s.parties {
		if p.honest {
			continue
		}
		for _, b := range s.byzResponses(p) {
			resps = append(resps, c11pRespMsg{p.id, b})
			s.note("BYZ party %d broadcasts %s", p.id, c11pRespString(b))
		}
	}

	// ---- justification phase
	var justs []c11pJustMsg
	for _, p := range s.parties {
		if !live(p) {
			continue
		}
		includeOwn := coin.IntN(2) == 0
		var msgs []c11pRespMsg
		for _, m := range resps {
			if m.from == p.id && !includeOwn {
				continue
			}
			msgs = append(msgs, m)
		}
		var list []*dkgp.ResponseBundle
		var groups []string
		for _, m := range msgs {
			groups = append(groups, s.groupOf(m.from))
		}
		for _, k := range s.order("resp", p.id, len(msgs), true, groups) {
			list = append(list, c11pCloneResp(msgs[k].b))
		}
		if s.scn.dv > 0 && coin.IntN(4) == 0 {
			at := coin.IntN(len(list) + 1)
			list = append(list[:at:at], append([]*dkgp.ResponseBundle{nil}, list[at:]...)...)
		}
		var res *dkgp.Result
		var jb *dkgp.JustificationBundle
		var err error
		if !guard("ProcessResponses", p, func() { res, jb, err = gens[p.id].ProcessResponses(list) }) {
			s.out[p.id].err, s.out[p.id].stage = fmt.Errorf("panic"), "ProcessResponses"
			continue
		}
		switch {
		case err != nil:
			s.out[p.id].err, s.out[p.id].stage = err, "ProcessResponses"
			s.note("party %d ProcessResponses error: %v", p.id, err)
		case res != nil:
			s.out[p.id].res = res
			s.note("party %d finishes after the responses", p.id)
		default:
			if jb != nil {
				justs = append(justs, c11pJustMsg{p.id, jb})
				s.note("party %d justifies %s", p.id, c11pJustString(jb))
			}
			if p.newIdx < 0 && gens[p.id].VerifSnapshot().Phase == int(dkgp.FinishPhase) {
				s.out[p.id].done = true
			}
		}
	}
	var allResp []*dkgp.ResponseBundle
	for _, m := range resps {
		allResp = append(allResp, m.b)
	}
	for _, p := range s.parties {
		if p.honest {
			continue
		}
		for _, b := range s.byzJustifs(p, c11pComplainersOf(allResp, uint32(p.oldIdx))) {
			justs = append(justs, c11pJustMsg{p.id, b})
			s.note("BYZ party %d broadcasts %s", p.id, c11pJustString(b))
		}
	}

	// ---- finish
	for _, p := range s.parties {
		if !live(p) {
			continue
		}
		cfg := cfgs[p.id]
		includeOwn := coin.IntN(2) == 0
		var msgs []c11pJustMsg
		for _, m := range justs {
			if m.from == p.id && !includeOwn {
				continue
			}
			msgs = append(msgs, m)
		}
		var list []*dkgp.JustificationBundle
		var groups []string
		for _, m := range msgs {
			groups = append(groups, s.groupOf(m.from))
		}
		for _, k := range s.order("just", p.id, len(msgs), false, groups) {
			list = append(list, c11pCloneJust(cfg.Suite.(c11pSuite), msgs[k].b))
		}
		if s.scn.dv > 0 && coin.IntN(4) == 0 {
			at := coin.IntN(len(list) + 1)
			list = append(list[:at:at], append([]*dkgp.JustificationBundle{nil}, list[at:]...)...)
		}
		var res *dkgp.Result
		var err error
		if !guard("ProcessJustifications", p, func() { res, err = gens[p.id].ProcessJustifications(list) }) {
			s.out[p.id].err, s.out[p.id].stage = fmt.Errorf("panic"), "ProcessJustifications"
			continue
		}
		switch {
		case err != nil:
			s.out[p.id].err, s.out[p.id].stage = err, "ProcessJustifications"
			s.note("party %d ProcessJustifications error: %v", p.id, err)
		case res != nil:
			s.out[p.id].res = res
			s.note("party %d finishes after the justifications", p.id)
		default:
			s.out[p.id].done = true
		}
	}
	for _, p := range s.parties {
		if p.honest && gens[p.id] != nil {
			sn := gens[p.id].VerifSnapshot()
			s.out[p.id].snap = &sn
		}
	}
	s.judge(st)
}

func c11pDealSummary(b *dkgp.DealBundle) string {
	var idx []uint32
	for _, d := range b.Deals {
		idx = append(idx, d.ShareIndex)
	}
	return fmt.Sprintf("deal{dealer=%d |public|=%d deals-for=%v sid-prefix=%s}", b.DealerIndex, len(b.Public), idx, mon.Hex(b.SessionID[:min(4, len(b.SessionID))]))
}

// checkHonestResponse compares the complaints of an honest holder with the ledger: a complaint
// against an honest dealer, or a success for a deal the harness built to be invalid, is a violation.
func (s *c11pSess) checkHonestResponse(p *c11pParty, rb *dkgp.ResponseBundle) {
	for _, x := range rb.Responses {
		d := s.byOld(x.DealerIndex)
		if d == nil {
			continue
		}
		s.r.Eval("response-vs-ledger", fmt.Sprintf("%s|%d|%d", s.scn.desc(), p.id, d.id), len(s.scn.faults) > 0)
		why, bad := s.dealBad[[2]int{d.id, p.id}]
		if x.Status == dkgp.Complaint && d.honest {
			s.viol("ProcessDeals/complaint-against-honest-dealer", "an honest share holder complains about the valid deal of an honest dealer", map[string]any{"holder": p.id, "dealer": d.id})
		}
		if x.Status == dkgp.Success && bad && d.id != p.id {
			s.viol("ProcessDeals/success-for-invalid-deal/"+d.fault.kind, "an honest share holder reports success for a deal the harness built to be invalid ("+why+")", map[string]any{"holder": p.id, "dealer": d.id})
		}
	}
}

// groupOf names the sender of a broadcast packet if it is Byzantine (pairs of packets of one
// Byzantine sender are delivered in opposite orders to different honest recipients, see order).
func (s *c11pSess) groupOf(from int) string {
	if from >= 0 && from < len(s.parties) && !s.parties[from].honest {
		return fmt.Sprint(from)
	}
	return ""
}
