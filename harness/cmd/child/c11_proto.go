package main

// C11, Pedersen DKG through the goroutine-driven Protocol driver. The harness implements Board
// and Phaser: PushX only enqueues; delivery and phase ticks are unbuffered hand-offs chosen by a
// seeded scheduler. Because Protocol.Start handles one event and returns to its select, a no-op
// InitPhase tick accepted by a node is a barrier: everything triggered by the previous event is done.
// Byzantine parties are the harness injecting signed (or badly signed, late, duplicated,
// conflicting) bundles into the same queue.

import (
	"bytes"
	"context"
	"crypto/sha256"
	"fmt"
	"reflect"
	"runtime/pprof"
	"sort"
	"strings"
	"sync"
	"time"
	"unsafe"

	"go.dedis.ch/kyber/v4"
	"go.dedis.ch/kyber/v4/group/edwards25519"
	dkgp "go.dedis.ch/kyber/v4/share/dkg/pedersen"

	"verif/internal/gen"
	"verif/internal/mon"
)

// c11pWatchdog bounds every hand-off; it only ever produces an inconclusive session.
const c11pWatchdog = 180 * time.Second

func c11Proto(r *mon.R) {
	r.SetRule("Pedersen DKG, Protocol driver (dkg.NewProtocol with signature verification on) under a harness Board/Phaser. Sessions = (fresh | resharing shape) x (n,t) x fast-sync x fault assignment x schedule " +
		"(lockstep | eager: queued packets are delivered before the next tick, which lets fast-sync finish early | skew: nodes are ticked one at a time with deliveries in between) x per-recipient delivery permutation with duplicated deliveries; " +
		"exhaustive single-fault assignments for groups of at most 4 nodes, sampled above. Non-trivial = at least one Byzantine party, or a permuted/duplicated delivery, or a resharing.")
	r.Assume("bounded progress instead of liveness: every honest packet of a phase is delivered to every live node before the next phase tick; late delivery (after the next tick, to everyone) only for Byzantine senders")
	r.Assume("the wall clock never decides: a hand-off watchdog only yields an inconclusive session")
	r.Assume("Byzantine parties are played by the harness with the party's long-term key; every honest node has its own seeded suite and gets its own encode/decode copy of every packet")
	r.Assume("reference side: math/big Lagrange interpolation and power-sum evaluation of the commitments; Ed25519 group operations of kyber (C01/C02) for point arithmetic")
	r.Op("dkg.NewProtocol", "Protocol.Start", "Protocol.WaitEnd", "dkg.VerifyPacketSignature", "DistKeyGenerator.VerifSnapshot", "share.RecoverSecret", "PubPoly.Check")

	scns := c11pScenarios(r, "proto")
	st := c11pNewStats()
	mon.Parallel(len(scns), func(worker, i int) {
		scn := scns[i]
		if r.Only != "" && fmt.Sprint(i) != r.Only {
			return
		}
		r.Journal(worker, "C11 proto session %d: %s", i, scn.desc())
		s := c11pNewSess(r, "proto", scn, i, gen.New(r.Seed, "c11p-proto", i), nil)
		r.Guard(s.key("session"), map[string]any{"session": i, "scenario": scn.desc(), "seed": r.Seed}, func() { s.runProto(st) })
	})
	st.flush(r, "proto")
}

type c11pPkt struct {
	typ  int // 0 deal, 1 response, 2 justification
	from int // party id of the sender
	deal *dkgp.DealBundle
	resp *dkgp.ResponseBundle
	just *dkgp.JustificationBundle
	key  string
}

type c11pNet struct {
	s       *c11pSess
	cs      c11pSuite // stateless suite used only to decode copies
	mu      sync.Mutex
	queue   []c11pPkt
	allResp []*dkgp.ResponseBundle
	boards  []*c11pBoard
	dead    bool
	flushNo int
	// constant commitment published by each honest dealer
	published map[int]kyber.Point
}

type c11pBoard struct {
	net   *c11pNet
	p     *c11pParty
	d     chan dkgp.DealBundle
	r     chan dkgp.ResponseBundle
	j     chan dkgp.JustificationBundle
	ph    chan dkgp.Phase
	done  chan struct{}
	res   dkgp.OptionResult
	proto *dkgp.Protocol
	label string
	gone  bool // the Protocol goroutine returned without ever reporting through WaitEnd
}

func (n *c11pNet) enqueue(p c11pPkt) {
	var pk dkgp.Packet
	switch p.typ {
	case 0:
		pk = p.deal
	case 1:
		pk = p.resp
	default:
		pk = p.just
	}
	h, _ := pk.Hash()
	sum := sha256.Sum256(append(append([]byte{}, h...), pk.Sig()...))
	p.key = fmt.Sprintf("%d|%08d|%x", p.typ, pk.Index(), sum[:8])
	n.mu.Lock()
	n.queue = append(n.queue, p)
	if p.typ == 1 {
		n.allResp = append(n.allResp, c11pCloneResp(p.resp))
	}
	n.mu.Unlock()
}

// Board and Phaser of one honest node. The Push methods run on the node's goroutine.
func (b *c11pBoard) PushDeals(x *dkgp.DealBundle) {
	c := c11pCloneDeal(b.net.cs, x)
	if len(c.Public) > 0 {
		b.net.mu.Lock()
		b.net.published[b.p.id] = c11pPointClone(b.net.cs, c.Public[0])
		b.net.mu.Unlock()
	}
	b.net.enqueue(c11pPkt{typ: 0, from: b.p.id, deal: c})
}
func (b *c11pBoard) PushResponses(x *dkgp.ResponseBundle) {
	b.net.enqueue(c11pPkt{typ: 1, from: b.p.id, resp: c11pCloneResp(x)})
}
func (b *c11pBoard) PushJustifications(x *dkgp.JustificationBundle) {
	b.net.enqueue(c11pPkt{typ: 2, from: b.p.id, just: c11pCloneJust(b.net.cs, x)})
}
func (b *c11pBoard) IncomingDeal() <-chan dkgp.DealBundle                   { return b.d }
func (b *c11pBoard) IncomingResponse() <-chan dkgp.ResponseBundle           { return b.r }
func (b *c11pBoard) IncomingJustification() <-chan dkgp.JustificationBundle { return b.j }
func (b *c11pBoard) NextPhase() chan dkgp.Phase                             { return b.ph }

func (n *c11pNet) watchdog(what string, b *c11pBoard) {
	n.dead = true
	n.s.inconcl = fmt.Sprintf("watchdog: party %d did not accept %s within %v", b.p.id, what, c11pWatchdog)
}

// handoff performs one unbuffered hand-off to a node. try must attempt the send and give up when
// either the node has finished (done) or the timer fires; it reports whether the hand-off is settled.
// While waiting, the harness never lets the clock decide: it asks the runtime whether the node's
// goroutine still exists (a Protocol that returned without reporting is "gone"), and only the
// generous watchdog makes the session inconclusive.
func (n *c11pNet) handoff(b *c11pBoard, what string, try func(timeout <-chan time.Time) bool) {
	if n.dead || b.gone {
		return
	}
	deadline := time.Now().Add(c11pWatchdog)
	wait := 500 * time.Millisecond
	for {
		t := time.NewTimer(wait)
		ok := try(t.C)
		t.Stop()
		if ok {
			return
		}
		if !c11pGoroutineAlive(b.label) {
			select {
			case <-b.done: // it reported just before returning
			default:
				b.gone = true
				n.s.note("party %d: the Protocol goroutine has returned without reporting through WaitEnd (noticed while handing over %s)", b.p.id, what)
			}
			return
		}
		if time.Now().After(deadline) {
			n.watchdog(what, b)
			return
		}
		if wait < 8*time.Second {
			wait *= 2
		}
	}
}

// tick hands a phase to one node (no-op if the node has finished).
func (n *c11pNet) tick(b *c11pBoard, ph dkgp.Phase) {
	n.handoff(b, fmt.Sprintf("tick %v", ph), func(timeout <-chan time.Time) bool {
		select {
		case b.ph <- ph:
		case <-b.done:
		case <-timeout:
			return false
		}
		return true
	})
}

func (n *c11pNet) barrier() {
	for _, b := range n.boards {
		n.tick(b, dkgp.InitPhase)
	}
}

func (n *c11pNet) deliver(b *c11pBoard, p c11pPkt) {
	switch p.typ {
	case 0:
		c := c11pCloneDeal(n.cs, p.deal)
		n.handoff(b, "a deal bundle", func(timeout <-chan time.Time) bool {
			select {
			case b.d <- *c:
			case <-b.done:
			case <-timeout:
				return false
			}
			return true
		})
	case 1:
		c := c11pCloneResp(p.resp)
		n.handoff(b, "a response bundle", func(timeout <-chan time.Time) bool {
			select {
			case b.r <- *c:
			case <-b.done:
			case <-timeout:
				return false
			}
			return true
		})
	default:
		c := c11pCloneJust(n.cs, p.just)
		n.handoff(b, "a justification bundle", func(timeout <-chan time.Time) bool {
			select {
			case b.j <- *c:
			case <-b.done:
			case <-timeout:
				return false
			}
			return true
		})
	}
}

// flush delivers everything queued so far to every live node: each recipient gets its own
// copies in its own seeded order, some of them twice. Returns the number of packets.
func (n *c11pNet) flush() int {
	n.mu.Lock()
	q := n.queue
	n.queue = nil
	n.mu.Unlock()
	if len(q) == 0 {
		return 0
	}
	sort.SliceStable(q, func(i, j int) bool { return q[i].key < q[j].key })
	n.flushNo++
	for _, p := range q {
		switch p.typ {
		case 0:
			n.s.note("flush %d: %s from party %d", n.flushNo, c11pDealSummary(p.deal), p.from)
		case 1:
			n.s.note("flush %d: %s from party %d", n.flushNo, c11pRespString(p.resp), p.from)
		default:
			n.s.note("flush %d: %s from party %d", n.flushNo, c11pJustString(p.just), p.from)
		}
	}
	var groups []string
	for _, p := range q {
		g := n.s.groupOf(p.from)
		if g != "" {
			g = fmt.Sprintf("%s/%d", g, p.typ)
		}
		groups = append(groups, g)
	}
	for _, b := range n.boards {
		for _, k := range n.s.order(fmt.Sprintf("flush%d", n.flushNo), b.p.id, len(q), true, groups) {
			n.deliver(b, q[k])
		}
	}
	return len(q)
}

func (n *c11pNet) pending() int {
	n.mu.Lock()
	defer n.mu.Unlock()
	return len(n.queue)
}

// c11pGoroutineAlive reports whether a goroutine carrying the pprof label c11p=label still exists.
func c11pGoroutineAlive(label string) bool {
	var buf bytes.Buffer
	if err := pprof.Lookup("goroutine").WriteTo(&buf, 1); err != nil {
		return true
	}
	return strings.Contains(buf.String(), fmt.Sprintf("%q:%q", "c11p", label))
}

// c11pProtoDKG reads the unexported generator of a finished Protocol (evidence only: status matrix).
func c11pProtoDKG(p *dkgp.Protocol) (g *dkgp.DistKeyGenerator) {
	defer func() {
		if recover() != nil {
			g = nil
		}
	}()
	v := reflect.ValueOf(p).Elem().FieldByName("dkg")
	if !v.IsValid() || v.Kind() != reflect.Ptr {
		return nil
	}
	return *(**dkgp.DistKeyGenerator)(unsafe.Pointer(v.UnsafeAddr()))
}

// runProto executes and judges one session through the Protocol driver.
func (s *c11pSess) runProto(st *c11pStats) {
	s.setupOldSharing()
	net := &c11pNet{s: s, cs: edwards25519.NewBlakeSHA256Ed25519(), published: map[int]kyber.Point{}}
	for _, p := range s.parties {
		if !p.honest {
			continue
		}
		cfg := s.config(p)
		b := &c11pBoard{net: net, p: p, d: make(chan dkgp.DealBundle), r: make(chan dkgp.ResponseBundle), j: make(chan dkgp.JustificationBundle),
			ph: make(chan dkgp.Phase), done: make(chan struct{})}
		var pr *dkgp.Protocol
		var err error
		b.label = fmt.Sprintf("%s/%d/%d/%d", s.mode, s.r.Seed, s.idx, p.id)
		// the goroutine NewProtocol spawns inherits the label, so the harness can later tell whether it still exists
		if !s.guard("NewProtocol", map[string]any{"party": p.id}, func() {
			pprof.Do(context.Background(), pprof.Labels("c11p", b.label), func(context.Context) { pr, err = dkgp.NewProtocol(cfg, b, b, false) })
		}) {
			net.dead = true
			break
		}
		if err != nil {
			s.viol("NewProtocol/error-on-valid-config", "NewProtocol refuses a valid configuration: "+err.Error(), map[string]any{"party": p.id})
			net.dead = true
			break
		}
		b.proto = pr
		net.boards = append(net.boards, b)
		go func() {
			b.res = <-pr.WaitEnd()
			close(b.done)
		}()
	}
	if net.dead {
		// release the nodes already started
		for _, b := range net.boards {
			t := time.NewTimer(c11pWatchdog)
			select {
			case b.ph <- dkgp.FinishPhase:
			case <-b.done:
			case <-t.C:
			}
			t.Stop()
		}
		return
	}
	sc := s.scn
	coin := gen.New(s.r.Seed, "c11p-proto-coins", s.idx)
	early := sc.fast && coin.IntN(2) == 0
	eager := sc.sched == "eager"
	skew := sc.sched == "skew"

	injected := map[string]bool{}
	inject := func(what string) {
		if injected[what] {
			return
		}
		injected[what] = true
		for _, p := range s.parties {
			if p.honest {
				continue
			}
			switch what {
			case "deals", "late-deals":
				if p.oldIdx < 0 {
					continue
				}
				late := p.fault.kind == "deal-late"
				if late != (what == "late-deals") {
					continue
				}
				for _, b := range s.byzDeals(p) {
					net.enqueue(c11pPkt{typ: 0, from: p.id, deal: b})
					s.note("BYZ party %d broadcasts %s (%s)", p.id, c11pDealSummary(b), what)
				}
			case "resps", "late-resps":
				late := p.fault.kind == "resp-late"
				if late != (what == "late-resps") {
					continue
				}
				if late {
					// a late false complaint: honest-looking content, delivered after the responses were processed
					q := *p
					q.fault = c11pFault{kind: "resp-false-complaint", target: p.fault.target}
					for _, b := range s.byzResponses(&q) {
						net.enqueue(c11pPkt{typ: 1, from: p.id, resp: b})
						s.note("BYZ party %d broadcasts %s (late)", p.id, c11pRespString(b))
					}
					continue
				}
				for _, b := range s.byzResponses(p) {
					net.enqueue(c11pPkt{typ: 1, from: p.id, resp: b})
					s.note("BYZ party %d broadcasts %s", p.id, c11pRespString(b))
				}
			case "justs":
				net.mu.Lock()
				all := append([]*dkgp.ResponseBundle(nil), net.allResp...)
				net.mu.Unlock()
				for _, b := range s.byzJustifs(p, c11pComplainersOf(all, uint32(p.oldIdx))) {
					net.enqueue(c11pPkt{typ: 2, from: p.id, just: b})
					s.note("BYZ party %d broadcasts %s", p.id, c11pJustString(b))
				}
			}
		}
	}
	flushLoop := func() {
		for k := 0; k < 8; k++ {
			net.barrier()
			if net.flush() == 0 {
				break
			}
			net.barrier()
			if !eager {
				break
			}
		}
	}
	round := func(ph dkgp.Phase) {
		s.note("---- tick %v (%s)", ph, sc.sched)
		if skew {
			ord := gen.New(s.r.Seed, fmt.Sprintf("c11p-skew/%d", int(ph)), s.idx).Perm(len(net.boards))
			for _, k := range ord {
				net.tick(net.boards[k], ph)
				flushLoop()
			}
			return
		}
		for _, b := range net.boards {
			net.tick(b, ph)
		}
		flushLoop()
	}

	inject("deals")
	round(dkgp.DealPhase)
	if early {
		inject("resps")
		flushLoop()
	}
	inject("resps")
	round(dkgp.ResponsePhase)
	inject("late-deals")
	if early {
		inject("justs")
		flushLoop()
	}
	inject("justs")
	round(dkgp.JustifPhase)
	inject("late-resps")
	round(dkgp.FinishPhase)

	// every node has been handed the FinishPhase tick (or had finished before): collect
	for _, b := range net.boards {
		if net.dead {
			break
		}
		net.handoff(b, "the end of the protocol", func(timeout <-chan time.Time) bool {
			select {
			case <-b.done:
			case <-timeout:
				return false
			}
			return true
		})
	}
	if net.dead {
		s.r.Inconclusive(s.inconcl + " :: " + sc.desc())
		return
	}
	for _, b := range net.boards {
		o := s.out[b.p.id]
		switch {
		case b.gone:
			o.err, o.stage = fmt.Errorf("the Protocol goroutine returned after the FinishPhase tick without reporting a result or an error: WaitEnd() never fires"), "Protocol.Start"
		case b.res.Error != nil:
			o.err, o.stage = b.res.Error, "Protocol"
		case b.res.Result != nil:
			o.res = b.res.Result
		default:
			o.done = true
		}
		if g := c11pProtoDKG(b.proto); g != nil && !b.gone {
			sn := g.VerifSnapshot()
			o.snap = &sn
		}
		if b.p.oldIdx >= 0 {
			// constant commitment the honest dealer published (the deal bundle it pushed)
			b.p.published = net.published[b.p.id]
		}
	}
	s.judge(st)
}
