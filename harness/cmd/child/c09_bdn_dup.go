package main

// C09, BDN family [repeated-key roster]: the same public key sits at two roster
// positions a < b. The BDN coefficients are per POSITION (16 bytes of the XOF
// over the whole roster per position), so the two positions have different
// terms. Only the index-based API is used (NewMask(nil) + SetBit): which
// position NewMask(myKey)/Participants pick for a repeated key is not judged.
// Oracle: AggregatePublicKeys(mask) = (sum over enabled i of (c_i+1)*x_i)*G with
// c_i from the harness's own blake2s reference; the aggregate of the honest
// signatures over the mask verifies under that key; and the aggregate over a
// mask that enables b (not a) does not verify under the key of the mask that
// enables a (not b) instead.

import (
	"fmt"
	"math/big"

	"go.dedis.ch/kyber/v4"
	"go.dedis.ch/kyber/v4/sign/bdn"

	"verif/internal/gen"
	"verif/internal/groups"
	"verif/internal/mon"
)

func c09BDNDup(r *mon.R, j c09Job) {
	n := j.n + 1
	if n < 3 {
		n = 3
	}
	rng := gen.New(r.Seed, "C09bdndup"+j.cb.name, j.n*10000+j.idx)
	e := c09NewEnv(j.cb)
	c := &c09BDNCtx{r: r, e: e, n: n, job: fmt.Sprintf("bdn-dup-n%d-%d", n, j.idx)}
	if e.cb.onG1 {
		c.sch = bdn.NewSchemeOnG1(e.ps)
	} else {
		c.sch = bdn.NewSchemeOnG2(e.ps)
	}
	name := e.cb.name
	a := rng.IntN(n - 1)
	b := a + 1 + rng.IntN(n-1-a)
	seen := map[string]bool{}
	for len(c.xs) < n {
		if len(c.xs) == b {
			c.xs = append(c.xs, c.xs[a])
			continue
		}
		x := c09NonZero(rng, e.q)
		if seen[x.String()] {
			continue
		}
		seen[x.String()] = true
		c.xs = append(c.xs, x)
	}
	for _, x := range c.xs {
		c.pubEnc = append(c.pubEnc, groups.Enc(e.pub(x)))
	}
	c.msg = c09Msg(rng)
	coefs := c09BDNRefCoefs(c.pubEnc)
	if coefs[a].Cmp(coefs[b]) == 0 {
		return // 2^-128
	}
	extra := map[string]any{"repeated_key_positions": []int{a, b}}
	ok := r.Guard("C09/bdn/"+name+"/repeated-key-roster", c.detail(c09Pattern{}, extra), func() {
		for i := 0; i < n; i++ {
			s, err := c.sch.Sign(e.sk(c.xs[i]), c09Cp(c.msg))
			if err != nil {
				panic("bdn.Sign failed: " + err.Error())
			}
			c.sigs = append(c.sigs, s)
		}
	})
	if !ok {
		return
	}
	// masks: only b; only a; both; b and every non-repeated position; everything; a random one containing b
	mk := func(f func(i int) bool) []int {
		var out []int
		for i := 0; i < n; i++ {
			if f(i) {
				out = append(out, i)
			}
		}
		return out
	}
	sets := map[string][]int{
		"later-position-only":   {b},
		"first-position-only":   {a},
		"both-positions":        {a, b},
		"later-position+others": mk(func(i int) bool { return i != a }),
		"first-position+others": mk(func(i int) bool { return i != b }),
		"all":                   mk(func(i int) bool { return true }),
	}
	rnd := mk(func(i int) bool { return i == b || (i != a && rng.IntN(2) == 0) })
	sets["random-with-later-position"] = rnd
	type agg struct {
		pk, sig kyber.Point
	}
	res := map[string]agg{}
	for _, kind := range []string{"later-position-only", "first-position-only", "both-positions", "later-position+others", "first-position+others", "all", "random-with-later-position"} {
		idx := sets[kind]
		det := func(m map[string]any) map[string]any {
			d := c.detail(c09Pattern{}, extra)
			d["enabled_positions"] = idx
			d["mask_kind"] = kind
			delete(d, "pattern")
			delete(d, "mask_bytes")
			for k, v := range m {
				d[k] = v
			}
			return d
		}
		var pk, sig kyber.Point
		ok := r.Guard("C09/bdn/"+name+"/repeated-key-roster/"+kind, det(nil), func() {
			m := c.mustMask(-1)
			var sigs [][]byte
			for _, i := range idx {
				if err := m.SetBit(i, true); err != nil {
					panic(fmt.Sprintf("bdn SetBit(%d) failed: %v", i, err))
				}
				sigs = append(sigs, c09Cp(c.sigs[i]))
			}
			var err error
			if pk, err = c.sch.AggregatePublicKeys(m); err != nil {
				panic("AggregatePublicKeys: " + err.Error())
			}
			if sig, err = c.sch.AggregateSignatures(sigs, m); err != nil {
				panic("AggregateSignatures: " + err.Error())
			}
		})
		if !ok {
			return
		}
		desc := fmt.Sprintf("%s|%s|dup=%d,%d|%s|%v", name, c.job, a, b, kind, idx)
		// reference aggregate key
		sum := new(big.Int)
		for _, i := range idx {
			t := new(big.Int).Add(coefs[i], big.NewInt(1))
			sum.Add(sum, t.Mul(t, c.xs[i]))
		}
		sum.Mod(sum, e.q)
		want := e.pub(sum)
		r.Eval("bdn/repeated-key-roster/aggregate-key-is-per-position/"+kind, desc, true)
		if !pk.Equal(want) {
			r.Violation("C09/bdn/"+name+"/AggregatePublicKeys/repeated-key-roster/wrong-key", "the aggregate key of a mask over a roster with a repeated key is not the sum of (c_i+1)X_i over the enabled positions",
				det(map[string]any{"got": mon.Hex(groups.Enc(pk)), "want": mon.Hex(groups.Enc(want))}))
		}
		r.Eval("bdn/repeated-key-roster/honest-aggregate-verifies/"+kind, desc, true)
		if err := c.verify(pk, c.msg, sig); err != nil {
			r.Violation("C09/bdn/"+name+"/Verify/rejected:honest-aggregate/repeated-key-roster", "the BDN aggregate over a mask does not verify under the aggregate key of that mask (roster with a repeated key): "+err.Error(),
				det(map[string]any{"agg_key": mon.Hex(groups.Enc(pk)), "agg_sig": mon.Hex(groups.Enc(sig))}))
		}
		res[kind] = agg{pk, sig}
	}
	// the other position of the same key is another mask: its aggregate key must not accept
	for _, pr := range [][2]string{{"later-position-only", "first-position-only"}, {"first-position-only", "later-position-only"},
		{"later-position+others", "first-position+others"}, {"first-position+others", "later-position+others"}} {
		s, k := res[pr[0]], res[pr[1]]
		desc := fmt.Sprintf("%s|%s|dup=%d,%d|sig:%s|key:%s", name, c.job, a, b, pr[0], pr[1])
		r.Eval("bdn/repeated-key-roster/other-position-is-another-mask", desc, true)
		var err error
		if !r.Guard("C09/bdn/"+name+"/repeated-key-roster/other-mask", c.detail(c09Pattern{}, extra), func() { err = c.verify(k.pk, c.msg, s.sig) }) {
			return
		}
		if err == nil {
			d := c.detail(c09Pattern{}, extra)
			d["signature_mask"], d["key_mask"] = sets[pr[0]], sets[pr[1]]
			r.Violation("C09/bdn/"+name+"/Verify/accepted:other-mask/repeated-key-roster", "a BDN aggregate verifies under the aggregate key of another mask (the other position of a repeated key)", d)
		}
	}
	r.NoteAdd("bdn_repeated_key_rosters", 1)
}
