package main

// Lock-step engine of the C18 monitor: several implementations of the same
// group ("machines") execute the same random straight-line program over
// scalar and point registers; after every step the destination register of
// every machine is encoded and compared with the expected value (the big.Int
// reference model where one exists, otherwise the majority of the machines).

import (
	"bytes"
	"crypto/sha512"
	"fmt"
	"math/big"
	"strings"

	"go.dedis.ch/kyber/v4"
	"go.dedis.ch/kyber/v4/pairing"
	"go.dedis.ch/kyber/v4/xof/blake2xb"

	"verif/internal/gen"
	"verif/internal/mon"
)

// c18PRef is the reference model of one point sort (values are opaque to the engine).
type c18PRef interface {
	Null() any
	Base() any
	Add(a, b any) any
	Neg(a any) any
	Mul(k *big.Int, a any) any
	Enc(a any) []byte // in the wire format of the implementations
	Dec(b []byte) (any, bool)
	IsNull(a any) bool
}

// c18Sort describes one sort of point registers (one group of the structure).
type c18Sort struct {
	name     string
	ref      c18PRef // nil: no reference model, machines are compared with each other
	noBase   bool    // Base()/Mul(s,nil) not scheduled (unsupported by at least one machine)
	canHash  bool
	canEmbed bool // Pick(stream) / Embed(data, stream) on a seeded stream are scheduled (all machines support them)
	// ext returns a valid canonical external encoding of an element of this sort and its class; nil if unavailable.
	ext func(rng *gen.Rng) (enc []byte, class string)
}

// c18Mach is one implementation.
type c18Mach struct {
	name  string
	grp   []kyber.Group // group per sort
	suite pairing.Suite // for Pair (sorts must be G1,G2,GT)
	vt    bool          // AllowVarTime(true) on every point
	// hash maps (sort,msg,dst) to a point; dst == nil means the back-end's default tag
	hash func(m *c18Mach, sort int, msg, dst []byte) kyber.Point
	sc   []kyber.Scalar
	pt   [][]kyber.Point
}

func (m *c18Mach) point(sort int) kyber.Point {
	p := m.grp[sort].Point()
	if m.vt {
		if v, ok := p.(kyber.AllowsVarTime); ok {
			v.AllowVarTime(true)
		}
	}
	return p
}

func (m *c18Mach) scalar() kyber.Scalar { return m.grp[0].Scalar() }

// c18OrderBytes returns the n-byte representation of v (0 <= v < 2^(8n)) in the byte order of s.
func c18OrderBytes(s kyber.Scalar, v *big.Int, n int) []byte {
	b := make([]byte, n)
	v.FillBytes(b)
	if s.ByteOrder() == kyber.LittleEndian {
		for i, j := 0, len(b)-1; i < j; i, j = i+1, j-1 {
			b[i], b[j] = b[j], b[i]
		}
	}
	return b
}

// c18ScalarInt decodes a scalar through MarshalBinary in its declared byte order.
func c18ScalarInt(s kyber.Scalar) *big.Int {
	b, err := s.MarshalBinary()
	if err != nil {
		panic("scalar MarshalBinary: " + err.Error())
	}
	c := append([]byte(nil), b...)
	if s.ByteOrder() == kyber.LittleEndian {
		for i, j := 0, len(c)-1; i < j; i, j = i+1, j-1 {
			c[i], c[j] = c[j], c[i]
		}
	}
	return new(big.Int).SetBytes(c)
}

func c18Enc(p kyber.Marshaling) []byte {
	b, err := p.MarshalBinary()
	if err != nil {
		panic("MarshalBinary: " + err.Error())
	}
	return append([]byte(nil), b...)
}

// c18Step is one abstract instruction.
type c18Step struct {
	op      string
	sort    int // sort of the destination for point ops
	d, a, b int
	sa      int      // scalar operand register (Mul)
	k       *big.Int // literal
	i64     int64
	n       int
	msg     []byte
	dst     []byte
	inplace bool // receiver is the object held by operand register a (else a fresh object)
	class   string
}

func (st *c18Step) String() string {
	var sb strings.Builder
	fmt.Fprintf(&sb, "%s", st.op)
	switch st.op {
	case "Scalar.Add", "Scalar.Sub", "Scalar.Mul", "Scalar.Div":
		fmt.Fprintf(&sb, " s%d=s%d,s%d", st.d, st.a, st.b)
	case "Scalar.Neg", "Scalar.Inv", "Scalar.Set":
		fmt.Fprintf(&sb, " s%d=s%d", st.d, st.a)
	case "Scalar.SetInt64":
		fmt.Fprintf(&sb, " s%d=%d", st.d, st.i64)
	case "Scalar.SetBytes", "Scalar.Hash":
		fmt.Fprintf(&sb, " s%d=int(%s,len=%d)", st.d, st.k.Text(16), st.n)
	case "Scalar.Zero", "Scalar.One":
		fmt.Fprintf(&sb, " s%d", st.d)
	case "Add", "Sub":
		fmt.Fprintf(&sb, " %d:p%d=p%d,p%d", st.sort, st.d, st.a, st.b)
	case "Neg", "Set", "Double", "SubSelf", "Roundtrip":
		fmt.Fprintf(&sb, " %d:p%d=p%d", st.sort, st.d, st.a)
	case "Mul":
		fmt.Fprintf(&sb, " %d:p%d=s%d*p%d", st.sort, st.d, st.sa, st.a)
	case "MulBase":
		fmt.Fprintf(&sb, " %d:p%d=s%d*B", st.sort, st.d, st.sa)
	case "Null", "Base":
		fmt.Fprintf(&sb, " %d:p%d", st.sort, st.d)
	case "Decode":
		fmt.Fprintf(&sb, " %d:p%d=dec(%x)[%s]", st.sort, st.d, st.msg, st.class)
	case "Hash":
		fmt.Fprintf(&sb, " %d:p%d=H(%x,dst=%q)", st.sort, st.d, st.msg, st.dst)
	case "Embed":
		fmt.Fprintf(&sb, " %d:p%d=Embed(%x[nil=%v],stream=%x)", st.sort, st.d, st.msg, st.msg == nil, st.dst)
	case "Pick":
		fmt.Fprintf(&sb, " %d:p%d=Pick(stream=%x)", st.sort, st.d, st.dst)
	case "Pair":
		fmt.Fprintf(&sb, " gt%d=e(p%d,q%d)", st.d, st.a, st.b)
	}
	if st.inplace {
		sb.WriteString(" [in-place]")
	}
	return sb.String()
}

// c18Lock is one lock-step execution.
type c18Lock struct {
	r           *mon.R
	part        string // key component: "ed25519", "p256", "bn256.G1", "bn254.G1", "bls12381"
	idx         int
	ms          []*c18Mach
	sorts       []c18Sort
	q           *big.Int
	edge        []*big.Int
	scalarBytes bool // machines must also agree on the scalar *encoding*
	nS, nP      int

	expS [](*big.Int) // expected scalar residues
	expP [][][]byte   // expected encodings per sort / register
	refP [][]any      // reference values per sort / register (sorts with a model)
	hist []string
	bad  map[string]bool // machines that are out of service for this program (could not be resynchronised)
	nul  map[int][]byte  // cache of identity encodings
}

func (L *c18Lock) detail(extra map[string]any) map[string]any {
	d := map[string]any{"part": L.part, "program": L.idx, "seed": L.r.Seed, "history": append([]string(nil), L.hist...)}
	for k, v := range extra {
		d[k] = v
	}
	return d
}

func (L *c18Lock) viol(mach, op, what, msg string, extra map[string]any) {
	L.r.Violation("C18/"+L.part+"/"+mach+"/"+op+"/"+what, msg, L.detail(extra))
}

// nullEnc returns the expected encoding of the identity of a sort.
func (L *c18Lock) nullEnc(sort int) []byte {
	if e, ok := L.nul[sort]; ok {
		return e
	}
	var e []byte
	if L.sorts[sort].ref != nil {
		e = L.sorts[sort].ref.Enc(L.sorts[sort].ref.Null())
	} else {
		e = c18Enc(L.ms[0].point(sort).Null())
	}
	if L.nul == nil {
		L.nul = map[int][]byte{}
	}
	L.nul[sort] = e
	return e
}

// init fills the registers: scalars from edge-biased literals, points with identity, generator and multiples.
func (L *c18Lock) init(rng *gen.Rng) {
	L.bad = map[string]bool{}
	L.expS = make([]*big.Int, L.nS)
	L.expP = make([][][]byte, len(L.sorts))
	L.refP = make([][]any, len(L.sorts))
	for _, m := range L.ms {
		m.sc = make([]kyber.Scalar, L.nS)
		m.pt = make([][]kyber.Point, len(L.sorts))
		for s := range L.sorts {
			m.pt[s] = make([]kyber.Point, L.nP)
		}
	}
	for s := range L.sorts {
		L.expP[s] = make([][]byte, L.nP)
		L.refP[s] = make([]any, L.nP)
	}
	for i := 0; i < L.nS; i++ {
		v := rng.EdgeOrRandom(L.edge, L.q, 120)
		st := &c18Step{op: "Scalar.SetBytes", d: i, k: v, n: (L.q.BitLen() + 7) / 8}
		L.step(st)
	}
	for s := range L.sorts {
		for i := 0; i < L.nP; i++ {
			var st *c18Step
			switch {
			case i == 0:
				st = &c18Step{op: "Null", sort: s, d: i}
			case L.sorts[s].noBase:
				// no generator available through the API: GT elements come from pairings
				if i == 1 {
					st = &c18Step{op: "Pair", sort: s, d: i, a: 1, b: 1}
				} else {
					st = &c18Step{op: "Pair", sort: s, d: i, a: rng.IntN(L.nP), b: rng.IntN(L.nP)}
				}
			case i == 1:
				st = &c18Step{op: "Base", sort: s, d: i}
			case i == 2 && L.sorts[s].ext != nil:
				enc, class := L.sorts[s].ext(rng)
				st = &c18Step{op: "Decode", sort: s, d: i, msg: enc, class: class}
			default:
				st = &c18Step{op: "MulBase", sort: s, d: i, sa: rng.IntN(L.nS)}
			}
			L.step(st)
		}
	}
}

// gen draws the next instruction.
func (L *c18Lock) gen(rng *gen.Rng) *c18Step {
	st := &c18Step{d: 0}
	if rng.IntN(100) < 30 {
		// scalar instruction
		st.d, st.a, st.b = rng.IntN(L.nS), rng.IntN(L.nS), rng.IntN(L.nS)
		st.inplace = rng.IntN(4) == 0
		switch c := rng.IntN(14); c {
		case 0, 1:
			st.op = "Scalar.Add"
		case 2:
			st.op = "Scalar.Sub"
		case 3, 4:
			st.op = "Scalar.Mul"
		case 5:
			st.op = "Scalar.Neg"
		case 6:
			st.op = "Scalar.Inv"
			if L.expS[st.a].Sign() == 0 {
				st.op = "Scalar.Neg"
			}
		case 7:
			st.op = "Scalar.Div"
			if L.expS[st.b].Sign() == 0 {
				st.op = "Scalar.Sub"
			}
		case 8:
			st.op = "Scalar.SetInt64"
			st.inplace = false
			switch rng.IntN(6) {
			case 0:
				st.i64 = int64(rng.IntN(5)) - 2
			case 1:
				st.i64 = -1 << 63
			case 2:
				st.i64 = 1<<63 - 1
			case 3:
				st.i64 = -int64(rng.Uint64() >> 1)
			default:
				st.i64 = int64(rng.Uint64() >> uint(1+rng.IntN(62)))
				if rng.IntN(2) == 0 {
					st.i64 = -st.i64
				}
			}
		case 9, 10:
			st.op = "Scalar.SetBytes"
			st.inplace = false
			ql := (L.q.BitLen() + 7) / 8
			switch rng.IntN(5) {
			case 0:
				st.n = rng.IntN(ql + 1)
			case 1:
				st.n = ql
			case 2:
				st.n = 2 * ql
			default:
				st.n = 1 + rng.IntN(2*ql+8)
			}
			b := rng.Bytes(st.n)
			switch rng.IntN(6) {
			case 0:
				for i := range b {
					b[i] = 0xff
				}
			case 1:
				for i := range b {
					b[i] = 0
				}
				if st.n > 0 {
					b[rng.IntN(st.n)] = byte(1 << uint(rng.IntN(8)))
				}
			case 2:
				// q, q+-1, 2q ... written on n bytes when they fit
				v := new(big.Int).Mul(L.q, big.NewInt(int64(1+rng.IntN(3))))
				v.Add(v, big.NewInt(int64(rng.IntN(3))-1))
				if (v.BitLen()+7)/8 <= st.n {
					v.FillBytes(b)
				}
			}
			st.k = new(big.Int).SetBytes(b)
		case 11:
			st.op = "Scalar.Hash"
			st.inplace = false
			st.msg = rng.Bytes(rng.IntN(70))
			h := sha512.Sum512(st.msg)
			st.n = 64
			st.k = new(big.Int).SetBytes(h[:])
		case 12:
			st.op = "Scalar.Set"
			st.inplace = false
		case 13:
			st.inplace = false
			if rng.IntN(2) == 0 {
				st.op = "Scalar.Zero"
			} else {
				st.op = "Scalar.One"
			}
		}
		return st
	}
	// point instruction
	st.sort = rng.IntN(len(L.sorts))
	srt := L.sorts[st.sort]
	st.d, st.a, st.b, st.sa = rng.IntN(L.nP), rng.IntN(L.nP), rng.IntN(L.nP), rng.IntN(L.nS)
	st.inplace = rng.IntN(4) == 0
	gt := len(L.sorts) == 3 && st.sort == 2
	switch c := rng.IntN(24); {
	case c < 4:
		st.op = "Add"
	case c < 6:
		st.op = "Sub"
	case c < 7:
		st.op = "Neg"
	case c < 12:
		st.op = "Mul"
	case c < 15:
		st.op = "MulBase"
		st.inplace = false
		if srt.noBase {
			st.op = "Mul"
		}
	case c < 16:
		st.op = "Double"
	case c < 17:
		st.op = "SubSelf"
	case c < 18:
		st.inplace = false
		if rng.IntN(2) == 0 || srt.noBase {
			st.op = "Null"
		} else {
			st.op = "Base"
		}
	case c < 19:
		st.op = "Set"
		st.inplace = false
	case c < 20:
		st.op = "Roundtrip"
		st.inplace = false
	case c < 22:
		st.inplace = false
		if srt.ext != nil {
			st.op = "Decode"
			st.msg, st.class = srt.ext(rng)
		} else if gt {
			st.op = "Pair"
		} else {
			st.op = "Mul"
		}
	default:
		st.inplace = false
		switch {
		case gt:
			st.op = "Pair"
		case srt.canEmbed && rng.IntN(2) == 0:
			st.dst = rng.Bytes(16)
			st.inplace = rng.IntN(3) == 0 // dirty receiver: the object held by register a
			switch c := rng.IntN(6); c {
			case 0:
				st.op = "Pick"
			case 1:
				st.op, st.msg = "Embed", []byte{} // empty but not nil
			case 2:
				st.op, st.msg = "Embed", nil
			case 3:
				st.op, st.msg = "Embed", rng.Bytes(1+rng.IntN(8))
			case 4:
				st.op, st.msg = "Embed", rng.Bytes(20+rng.IntN(12)) // around EmbedLen of the 32-byte curves
			default:
				st.op, st.msg = "Embed", rng.Bytes(rng.IntN(64))[:0] // empty, non-nil, with spare capacity
			}
		case srt.canHash:
			st.op = "Hash"
			st.msg = rng.Bytes(rng.IntN(48))
			switch rng.IntN(3) {
			case 0:
				st.dst = nil
			case 1:
				st.dst = []byte("C18-VERIF-DST-" + fmt.Sprint(rng.IntN(4)))
			default:
				st.dst = rng.Bytes(1 + rng.IntN(40))
			}
		default:
			st.op = "Add"
		}
	}
	return st
}

// execMach executes st on machine m (may panic; the caller guards).
func (L *c18Lock) execMach(m *c18Mach, st *c18Step) {
	if strings.HasPrefix(st.op, "Scalar.") {
		var recv kyber.Scalar
		if st.inplace {
			recv = m.sc[st.a]
		} else {
			recv = m.scalar()
		}
		var res kyber.Scalar
		switch st.op {
		case "Scalar.Add":
			res = recv.Add(m.sc[st.a], m.sc[st.b])
		case "Scalar.Sub":
			res = recv.Sub(m.sc[st.a], m.sc[st.b])
		case "Scalar.Mul":
			res = recv.Mul(m.sc[st.a], m.sc[st.b])
		case "Scalar.Div":
			res = recv.Div(m.sc[st.a], m.sc[st.b])
		case "Scalar.Neg":
			res = recv.Neg(m.sc[st.a])
		case "Scalar.Inv":
			res = recv.Inv(m.sc[st.a])
		case "Scalar.Set":
			res = recv.Set(m.sc[st.a])
		case "Scalar.SetInt64":
			res = recv.SetInt64(st.i64)
		case "Scalar.SetBytes", "Scalar.Hash":
			res = recv.SetBytes(c18OrderBytes(recv, st.k, st.n))
		case "Scalar.Zero":
			res = recv.Zero()
		case "Scalar.One":
			res = recv.One()
		default:
			panic("harness: unknown scalar op " + st.op)
		}
		if st.inplace && st.d != st.a {
			// in-place op overwrote register a: keep the registers distinct objects by moving the result
			// to d and restoring a from the expectation (a's old value is what the model still holds).
			m.sc[st.d] = res
			m.sc[st.a] = L.scalarFromBig(m, L.expS[st.a])
		} else {
			m.sc[st.d] = res
		}
		return
	}
	s := st.sort
	var recv kyber.Point
	if st.inplace {
		recv = m.pt[s][st.a]
	} else {
		recv = m.point(s)
	}
	var res kyber.Point
	switch st.op {
	case "Add":
		res = recv.Add(m.pt[s][st.a], m.pt[s][st.b])
	case "Sub":
		res = recv.Sub(m.pt[s][st.a], m.pt[s][st.b])
	case "Neg":
		res = recv.Neg(m.pt[s][st.a])
	case "Mul":
		res = recv.Mul(m.sc[st.sa], m.pt[s][st.a])
	case "MulBase":
		res = recv.Mul(m.sc[st.sa], nil)
	case "Double":
		res = recv.Add(m.pt[s][st.a], m.pt[s][st.a])
	case "SubSelf":
		res = recv.Sub(m.pt[s][st.a], m.pt[s][st.a])
	case "Null":
		res = recv.Null()
	case "Base":
		res = recv.Base()
	case "Set":
		res = recv.Set(m.pt[s][st.a])
	case "Roundtrip":
		if err := recv.UnmarshalBinary(c18Enc(m.pt[s][st.a].Clone())); err != nil {
			panic("decode of own encoding failed: " + err.Error())
		}
		res = recv
	case "Decode":
		if err := recv.UnmarshalBinary(st.msg); err != nil {
			panic("decode of a valid canonical encoding failed: " + err.Error())
		}
		res = recv
	case "Hash":
		res = m.hash(m, s, st.msg, st.dst)
	case "Embed":
		res = recv.Embed(st.msg, blake2xb.New(st.dst))
	case "Pick":
		res = recv.Pick(blake2xb.New(st.dst))
	case "Pair":
		res = m.suite.Pair(m.pt[0][st.a], m.pt[1][st.b])
	default:
		panic("harness: unknown point op " + st.op)
	}
	if st.inplace && st.d != st.a {
		m.pt[s][st.d] = res
		m.pt[s][st.a] = L.pointFromEnc(m, s, L.expP[s][st.a])
	} else {
		m.pt[s][st.d] = res
	}
}

func (L *c18Lock) scalarFromBig(m *c18Mach, v *big.Int) kyber.Scalar {
	s := m.scalar()
	return s.SetBytes(c18OrderBytes(s, v, (L.q.BitLen()+7)/8))
}

func (L *c18Lock) pointFromEnc(m *c18Mach, sort int, enc []byte) kyber.Point {
	p := m.point(sort)
	if err := p.UnmarshalBinary(enc); err != nil {
		panic(fmt.Sprintf("harness resync: %s cannot decode expected encoding %x: %v", m.name, enc, err))
	}
	return p
}

// refExec computes the expected value with the reference model. Returns (scalar residue, reference point, ok);
// ok=false when the sort has no model or the op is not modelled (Hash, Pair): the expectation then comes from the machines.
func (L *c18Lock) refExec(st *c18Step) (sv *big.Int, pv any, ok bool) {
	q := L.q
	mod := func(x *big.Int) *big.Int { return x.Mod(x, q) }
	if strings.HasPrefix(st.op, "Scalar.") {
		a, b := L.expS[st.a], L.expS[st.b]
		switch st.op {
		case "Scalar.Add":
			return mod(new(big.Int).Add(a, b)), nil, true
		case "Scalar.Sub":
			return mod(new(big.Int).Sub(a, b)), nil, true
		case "Scalar.Mul":
			return mod(new(big.Int).Mul(a, b)), nil, true
		case "Scalar.Div":
			inv := new(big.Int).ModInverse(b, q)
			return mod(inv.Mul(inv, a)), nil, true
		case "Scalar.Neg":
			return mod(new(big.Int).Neg(a)), nil, true
		case "Scalar.Inv":
			return new(big.Int).ModInverse(a, q), nil, true
		case "Scalar.Set":
			return new(big.Int).Set(a), nil, true
		case "Scalar.SetInt64":
			return mod(big.NewInt(st.i64)), nil, true
		case "Scalar.SetBytes", "Scalar.Hash":
			return mod(new(big.Int).Set(st.k)), nil, true
		case "Scalar.Zero":
			return new(big.Int), nil, true
		case "Scalar.One":
			return big.NewInt(1), nil, true
		}
		panic("harness: unknown scalar op " + st.op)
	}
	R := L.sorts[st.sort].ref
	if R == nil {
		return nil, nil, false
	}
	rp := L.refP[st.sort]
	switch st.op {
	case "Add":
		return nil, R.Add(rp[st.a], rp[st.b]), true
	case "Sub":
		return nil, R.Add(rp[st.a], R.Neg(rp[st.b])), true
	case "Neg":
		return nil, R.Neg(rp[st.a]), true
	case "Mul":
		return nil, R.Mul(L.expS[st.sa], rp[st.a]), true
	case "MulBase":
		return nil, R.Mul(L.expS[st.sa], R.Base()), true
	case "Double":
		return nil, R.Add(rp[st.a], rp[st.a]), true
	case "SubSelf":
		return nil, R.Add(rp[st.a], R.Neg(rp[st.a])), true
	case "Null":
		return nil, R.Null(), true
	case "Base":
		return nil, R.Base(), true
	case "Set", "Roundtrip":
		return nil, rp[st.a], true
	case "Decode":
		v, ok := R.Dec(st.msg)
		if !ok {
			panic(fmt.Sprintf("harness: reference cannot decode its own external encoding %x", st.msg))
		}
		return nil, v, true
	}
	return nil, nil, false // Hash, Pair
}

// trivial reports whether the step only involves identities / zero.
func (L *c18Lock) trivial(st *c18Step) bool {
	if strings.HasPrefix(st.op, "Scalar.") {
		switch st.op {
		case "Scalar.Zero":
			return true
		case "Scalar.Add", "Scalar.Sub", "Scalar.Mul":
			return L.expS[st.a].Sign() == 0 && L.expS[st.b].Sign() == 0
		case "Scalar.Neg", "Scalar.Set":
			return L.expS[st.a].Sign() == 0
		}
		return false
	}
	null := L.nullEnc(st.sort)
	isNull := func(i int) bool { return bytes.Equal(L.expP[st.sort][i], null) }
	switch st.op {
	case "Null":
		return true
	case "Add", "Sub":
		return isNull(st.a) && isNull(st.b)
	case "Neg", "Set", "Double", "SubSelf", "Roundtrip", "Mul":
		return isNull(st.a)
	}
	return false
}

// step executes one instruction everywhere and judges it.
func (L *c18Lock) step(st *c18Step) {
	L.hist = append(L.hist, st.String())
	if len(L.hist) > 48 {
		L.hist = L.hist[1:]
	}
	isScalar := strings.HasPrefix(st.op, "Scalar.")
	triv := L.trivial(st)
	sv, pv, haveRef := L.refExec(st)
	// run the machines
	type out struct {
		ok    bool
		enc   []byte   // point encoding or raw scalar encoding
		val   *big.Int // scalar residue
		panic string
	}
	outs := make([]out, len(L.ms))
	for i, m := range L.ms {
		if L.bad[m.name] {
			continue
		}
		msg, p := mon.Try(func() {
			L.execMach(m, st)
			if isScalar {
				outs[i].enc = c18Enc(m.sc[st.d])
				outs[i].val = c18ScalarInt(m.sc[st.d])
			} else {
				// encode a copy: MarshalBinary of some implementations normalises the receiver in place and
				// would repair an inconsistent internal representation before the next step can use it
				outs[i].enc = c18Enc(m.pt[st.sort][st.d].Clone())
			}
		})
		if p {
			outs[i].panic = msg
			continue
		}
		outs[i].ok = true
	}
	// expectation
	var expEnc []byte
	var expVal *big.Int
	how := "reference"
	if isScalar {
		expVal = sv
	} else if haveRef {
		expEnc = L.sorts[st.sort].ref.Enc(pv)
	} else {
		how = "majority"
		votes := map[string]int{}
		best, bestN := "", 0
		for i := range outs {
			if outs[i].ok {
				votes[string(outs[i].enc)]++
			}
		}
		for i := range outs { // deterministic: first machine wins ties
			if outs[i].ok && votes[string(outs[i].enc)] > bestN {
				best, bestN = string(outs[i].enc), votes[string(outs[i].enc)]
			}
		}
		if bestN == 0 {
			// every machine panicked: nothing to compare; keep the old expectation
			for i, m := range L.ms {
				if !L.bad[m.name] {
					L.viol(m.name, st.op, "panic", "panic: "+outs[i].panic, map[string]any{"step": st.String(), "panic": outs[i].panic})
					L.bad[m.name] = true
				}
			}
			return
		}
		expEnc = []byte(best)
		if R := L.sorts[st.sort].ref; R != nil {
			// adopt the agreed value into the model (Hash): it must at least be a valid element for the model
			v, ok := R.Dec(expEnc)
			if !ok {
				L.viol("all", st.op, "result-not-in-group", "the value the implementations agree on is not a canonical encoding of a group element for the reference model",
					map[string]any{"step": st.String(), "enc": mon.Hex(expEnc)})
				v = R.Null()
				expEnc = R.Enc(v)
			}
			pv = v
		}
	}
	// judge
	opName := st.op
	for i, m := range L.ms {
		if L.bad[m.name] {
			continue
		}
		o := outs[i]
		cls := L.part + "/" + opName
		if st.op == "Decode" {
			cls += "/" + st.class
		}
		L.r.Eval(cls, fmt.Sprintf("%s|%d|%d|%s", m.name, L.idx, len(L.hist), st.String()), !triv)
		L.r.Op(m.name + ":" + opName)
		if !o.ok {
			L.viol(m.name, opName, "panic", "panic: "+o.panic, map[string]any{"step": st.String(), "panic": o.panic})
			L.resync(m, st, isScalar, expVal, expEnc)
			continue
		}
		if isScalar {
			if o.val.Cmp(expVal) != 0 {
				L.viol(m.name, opName, "scalar-value-differs", "scalar differs from the math/big reference (and hence from the other implementations)",
					map[string]any{"step": st.String(), "got": o.val.Text(16), "want": expVal.Text(16), "operands": L.operands(st)})
				L.resync(m, st, true, expVal, nil)
			}
			continue
		}
		if !bytes.Equal(o.enc, expEnc) {
			what := "point-encoding-differs-from-reference"
			if how == "majority" {
				what = "point-encoding-differs-from-peers"
			}
			L.viol(m.name, opName, what, "encoding of the result differs ("+how+")",
				map[string]any{"step": st.String(), "got": mon.Hex(o.enc), "want": mon.Hex(expEnc), "operands": L.operands(st), "others": L.others(outs2enc(len(outs), func(j int) []byte { return outs[j].enc }))})
			L.resync(m, st, false, nil, expEnc)
		}
	}
	if isScalar && L.scalarBytes {
		// byte-identical scalar encodings between the implementations
		var first []byte
		fi := -1
		for i := range outs {
			if !outs[i].ok || L.bad[L.ms[i].name] || outs[i].val.Cmp(expVal) != 0 {
				continue
			}
			if fi < 0 {
				first, fi = outs[i].enc, i
				continue
			}
			L.r.Eval(L.part+"/scalar-encoding", fmt.Sprintf("%s|%d|%d", L.ms[i].name, L.idx, len(L.hist)), !triv)
			if !bytes.Equal(outs[i].enc, first) {
				L.viol(L.ms[i].name+"-vs-"+L.ms[fi].name, opName, "scalar-encoding-differs", "same residue, different MarshalBinary bytes",
					map[string]any{"step": st.String(), L.ms[i].name: mon.Hex(outs[i].enc), L.ms[fi].name: mon.Hex(first)})
			}
		}
	}
	// commit the expectation
	if isScalar {
		L.expS[st.d] = expVal
	} else {
		L.expP[st.sort][st.d] = expEnc
		L.refP[st.sort][st.d] = pv
	}
}

func outs2enc(n int, f func(int) []byte) [][]byte {
	o := make([][]byte, n)
	for i := range o {
		o[i] = f(i)
	}
	return o
}

func (L *c18Lock) others(encs [][]byte) map[string]string {
	o := map[string]string{}
	for i, m := range L.ms {
		o[m.name] = mon.Hex(encs[i])
	}
	return o
}

// operands gives the expected operand values of a step for the witness.
func (L *c18Lock) operands(st *c18Step) map[string]string {
	o := map[string]string{}
	if strings.HasPrefix(st.op, "Scalar.") {
		o["a"] = L.expS[st.a].Text(16)
		o["b"] = L.expS[st.b].Text(16)
		return o
	}
	switch st.op {
	case "Pair":
		o["a"] = mon.Hex(L.expP[0][st.a])
		o["b"] = mon.Hex(L.expP[1][st.b])
	default:
		o["a"] = mon.Hex(L.expP[st.sort][st.a])
		o["b"] = mon.Hex(L.expP[st.sort][st.b])
		o["s"] = L.expS[st.sa].Text(16)
	}
	return o
}

// resync puts the expected value into the destination register of a deviating machine so that later steps
// are judged on their own; a machine that cannot be resynchronised is taken out of this program.
func (L *c18Lock) resync(m *c18Mach, st *c18Step, isScalar bool, val *big.Int, enc []byte) {
	_, p := mon.Try(func() {
		if isScalar {
			m.sc[st.d] = L.scalarFromBig(m, val)
			if st.inplace {
				m.sc[st.a] = L.scalarFromBig(m, L.expS[st.a])
				m.sc[st.d] = L.scalarFromBig(m, val)
			}
			return
		}
		if st.inplace {
			m.pt[st.sort][st.a] = L.pointFromEnc(m, st.sort, L.expP[st.sort][st.a])
		}
		m.pt[st.sort][st.d] = L.pointFromEnc(m, st.sort, enc)
	})
	if p {
		L.bad[m.name] = true
	}
}

// sweep compares every register of every machine with the expectation (catches operands or bystanders changed by an operation).
func (L *c18Lock) sweep(when string) {
	for _, m := range L.ms {
		if L.bad[m.name] {
			continue
		}
		for i := 0; i < L.nS; i++ {
			var got *big.Int
			msg, p := mon.Try(func() { got = c18ScalarInt(m.sc[i]) })
			L.r.Eval(L.part+"/sweep", fmt.Sprintf("%s|%d|%s|s%d", m.name, L.idx, when, i), L.expS[i].Sign() != 0)
			if p {
				L.viol(m.name, "sweep", "panic", "panic: "+msg, map[string]any{"register": fmt.Sprintf("s%d", i)})
				L.bad[m.name] = true
				break
			}
			if got.Cmp(L.expS[i]) != 0 {
				L.viol(m.name, "sweep", "scalar-register-changed", "a scalar register that no step wrote since it was last judged holds another value (operand or bystander modified)",
					map[string]any{"register": fmt.Sprintf("s%d", i), "got": got.Text(16), "want": L.expS[i].Text(16)})
				m.sc[i] = L.scalarFromBig(m, L.expS[i])
			}
		}
		for s := range L.sorts {
			if L.bad[m.name] {
				break
			}
			null := L.nullEnc(s)
			for i := 0; i < L.nP; i++ {
				var got []byte
				msg, p := mon.Try(func() {
					if when == "end" {
						got = c18Enc(m.pt[s][i]) // the live object
					} else {
						got = c18Enc(m.pt[s][i].Clone()) // do not let the observation normalise the register
					}
				})
				L.r.Eval(L.part+"/sweep", fmt.Sprintf("%s|%d|%s|%d:p%d", m.name, L.idx, when, s, i), !bytes.Equal(L.expP[s][i], null))
				if p {
					L.viol(m.name, "sweep", "panic", "panic: "+msg, map[string]any{"register": fmt.Sprintf("%d:p%d", s, i)})
					L.bad[m.name] = true
					break
				}
				if !bytes.Equal(got, L.expP[s][i]) {
					L.viol(m.name, "sweep", "point-register-changed", "a point register that no step wrote since it was last judged encodes differently (operand or bystander modified)",
						map[string]any{"register": fmt.Sprintf("%d:p%d", s, i), "got": mon.Hex(got), "want": mon.Hex(L.expP[s][i])})
					_, p2 := mon.Try(func() { m.pt[s][i] = L.pointFromEnc(m, s, L.expP[s][i]) })
					if p2 {
						L.bad[m.name] = true
						break
					}
				}
			}
		}
	}
}

// run executes init + n random steps.
func (L *c18Lock) run(rng *gen.Rng, n int) {
	L.init(rng)
	for i := 0; i < n; i++ {
		L.step(L.gen(rng))
		if i%13 == 12 {
			L.sweep(fmt.Sprint(i))
		}
	}
	L.sweep("end")
	for _, m := range L.ms {
		if L.bad[m.name] {
			L.r.NoteAdd("machines_taken_out_of_a_program", 1)
		}
	}
}
