package main

import (
	"fmt"
	"math/big"
	"sync"
	"sync/atomic"

	"go.dedis.ch/kyber/v4"
	"go.dedis.ch/kyber/v4/share"

	"verif/internal/groups"
	"verif/internal/ref"
)

var c07Counters sync.Map

func c07Counter(k string) *atomic.Int64 {
	if v, ok := c07Counters.Load(k); ok {
		return v.(*atomic.Int64)
	}
	v, _ := c07Counters.LoadOrStore(k, new(atomic.Int64))
	return v.(*atomic.Int64)
}

// c07Dealer judges evaluation, commitment and Check for one dealer.
func c07Dealer(c *c07ctx) {
	g, r := c.g, c.r
	nontriv := !c.ref.IsZero()
	r.Op("PriPoly.Eval", "PriPoly.Shares", "PubPoly.Eval", "PubPoly.Shares", "PubPoly.Check", "PubPoly.Info", "PubPoly.Commit", "PubPoly.Threshold", "NewPubPoly")

	// commitments: Commit(b)[j] = c_j * base
	bArg, commits := c.pub.Info()
	r.Eval("dealer/Commit", c.desc("commit"), nontriv)
	if len(commits) != len(c.ref.C) || int(c.pub.Threshold()) != len(c.ref.C) {
		c.viol("Commit", "wrong-length", "Commit does not carry one commitment per coefficient", map[string]any{"len": len(commits)})
	} else {
		for j := range commits {
			if ok, why := c07SamePt(commits[j], c07DecP(g, c.commEnc[j])); !ok {
				c.viol("Commit", "wrong-commitment", "commitment j differs from coefficient_j * base", map[string]any{"j": j, "why": why})
				break
			}
		}
		if ok, why := c07SamePt(c.pub.Commit(), c07DecP(g, c.commEnc[0])); !ok {
			c.viol("PubPoly.Commit", "wrong-commitment", "PubPoly.Commit() differs from secret * base", map[string]any{"why": why})
		}
	}
	if (bArg == nil) != (c.baseArg == nil) || (bArg != nil && !bArg.Equal(c.base)) {
		c.viol("PubPoly.Info", "wrong-base", "Info() does not return the base given to Commit", nil)
	}

	// a verifier's view: the public polynomial rebuilt from transmitted commitments
	var rebuilt *share.PubPoly
	{
		cs := make([]kyber.Point, len(c.commEnc))
		for j := range cs {
			cs[j] = c07DecP(g, c.commEnc[j])
		}
		var b kyber.Point
		if c.baseArg != nil {
			b = c07DecP(g, groups.Enc(c.base))
		}
		rebuilt = share.NewPubPoly(g.Grp, b, cs)
	}

	// evaluation at every index (and two beyond n)
	priShares := c.pp.Shares(uint32(c.n))
	pubShares := c.pub.Shares(uint32(c.n))
	if len(priShares) != c.n || len(pubShares) != c.n {
		c.viol("Shares", "wrong-count", "Shares(n) does not return n shares", map[string]any{"pri": len(priShares), "pub": len(pubShares)})
	}
	for i := 0; i < c.n+2; i++ {
		want := c.ref.EvalIndex(uint32(i))
		ev := c.pp.Eval(uint32(i))
		r.Eval("eval/PriPoly.Eval", c.desc(fmt.Sprintf("pe%d", i)), nontriv)
		if ev == nil || ev.I != uint32(i) || groups.ScalarToBig(ev.V).Cmp(want) != 0 {
			got := "nil"
			if ev != nil {
				got = fmt.Sprintf("{%d:%s}", ev.I, groups.ScalarToBig(ev.V).Text(16))
			}
			c.viol("PriPoly.Eval", "wrong-share", "PriPoly.Eval(i) differs from the reference evaluation at x=i+1", map[string]any{"i": i, "got": got, "want": want.Text(16)})
		}
		wantP := c07DecP(g, c.pubEnc[i])
		pv := c.pub.Eval(uint32(i))
		r.Eval("eval/PubPoly.Eval", c.desc(fmt.Sprintf("pu%d", i)), nontriv)
		if pv == nil || pv.I != uint32(i) {
			c.viol("PubPoly.Eval", "wrong-index", "PubPoly.Eval(i) returns a share with another index", map[string]any{"i": i})
		} else if ok, why := c07SamePt(pv.V, wantP); !ok {
			c.viol("PubPoly.Eval", "wrong-share", "PubPoly.Eval(i) differs from PriPoly.Eval(i) * base (reference)", map[string]any{"i": i, "why": why})
		}
		if ev != nil && pv != nil {
			// the property's own relation, through the library's values only
			r.Eval("eval/pub=pri*base", c.desc(fmt.Sprintf("rel%d", i)), nontriv)
			if ok, why := c07SamePt(pv.V, g.Point().Mul(ev.V, c.base)); !ok {
				c.viol("PubPoly.Eval", "pub-ne-pri-times-base", "PubPoly.Eval(i) != PriPoly.Eval(i) * base", map[string]any{"i": i, "why": why})
			}
		}
		rv := rebuilt.Eval(uint32(i))
		r.Eval("eval/NewPubPoly.Eval", c.desc(fmt.Sprintf("rb%d", i)), nontriv)
		if ok, why := c07SamePt(rv.V, wantP); !ok {
			c.viol("PubPoly.Eval", "rebuilt-wrong-share", "Eval of a PubPoly rebuilt with NewPubPoly from the commitments differs from the reference", map[string]any{"i": i, "why": why})
		}
		if i < c.n && i < len(priShares) && i < len(pubShares) {
			r.Eval("eval/Shares", c.desc(fmt.Sprintf("sh%d", i)), nontriv)
			ps, qs := priShares[i], pubShares[i]
			if ps == nil || ps.I != uint32(i) || groups.ScalarToBig(ps.V).Cmp(want) != 0 {
				c.viol("PriPoly.Shares", "wrong-share", "Shares(n)[i] differs from the reference evaluation", map[string]any{"i": i, "want": want.Text(16)})
			}
			if qs == nil || qs.I != uint32(i) {
				c.viol("PubPoly.Shares", "wrong-index", "PubPoly.Shares(n)[i] has another index", map[string]any{"i": i})
			} else if ok, why := c07SamePt(qs.V, wantP); !ok {
				c.viol("PubPoly.Shares", "wrong-share", "PubPoly.Shares(n)[i] differs from the reference", map[string]any{"i": i, "why": why})
			}
		}
	}

	// Check: accepted exactly when the share lies on the committed polynomial
	other := c07OtherPoly(c)
	judge := func(pub *share.PubPoly, which, class string, idx int, val *big.Int, nt bool) {
		want := c.ref.EvalIndex(uint32(idx)).Cmp(new(big.Int).Mod(val, g.Q)) == 0
		s := &share.PriShare{I: uint32(idx), V: g.ScalarFromBig(val)}
		got := pub.Check(s)
		r.Eval("check/"+class, c.desc(fmt.Sprintf("%s|%s|%d|%s", which, class, idx, val.Text(16))), nt)
		if want {
			c07Counter("check/accepted").Add(1)
		} else {
			c07Counter("check/rejected").Add(1)
		}
		if got != want {
			what := "accepts-off-polynomial"
			msg := "Check accepts a share that does not lie on the committed polynomial"
			if want {
				what, msg = "rejects-on-polynomial", "Check rejects a share that lies on the committed polynomial"
			}
			c.viol("Check", class+"/"+what, msg, map[string]any{"pubpoly": which, "index": idx, "value": new(big.Int).Mod(val, g.Q).Text(16), "honest_value": c.ref.EvalIndex(uint32(idx)).Text(16)})
		}
		r.SampleClass("check/"+class, map[string]any{"kind": "Check", "class": class, "group": g.Name, "t": c.t, "n": c.n, "index": idx, "expected_accept": want, "got": got})
	}
	one := big.NewInt(1)
	for i := 0; i < c.n+1; i++ {
		pub, which := c.pub, "Commit"
		if i%2 == 1 {
			pub, which = rebuilt, "NewPubPoly"
		}
		v := c.ref.EvalIndex(uint32(i))
		judge(pub, which, "honest", i, v, nontriv)
		judge(pub, which, "value+1", i, new(big.Int).Add(v, one), true)
		if c.light && i > 2 {
			continue
		}
		judge(pub, which, "value-1", i, new(big.Int).Sub(v, one), true)
		d := c.rng.Big(g.Q)
		if d.Sign() == 0 {
			d.SetInt64(3)
		}
		judge(pub, which, "value+random", i, new(big.Int).Add(v, d), true)
		judge(pub, which, "negated", i, new(big.Int).Neg(v), v.Sign() != 0)
		// wrong index: the value of share i presented under index j
		j := (i + 1 + c.rng.IntN(c.n+1)) % (c.n + 1)
		if j != i {
			judge(pub, which, "wrong-index", j, v, c.ref.EvalIndex(uint32(j)).Cmp(v) != 0)
		}
		// share of another polynomial with the same threshold (same secret in half of the cases)
		ov := other.EvalIndex(uint32(i))
		judge(pub, which, "other-polynomial", i, ov, ov.Cmp(v) != 0)
		judge(pub, which, "zero-value", i, new(big.Int), v.Sign() != 0)
	}
	// the same battery that derived objects go through, on the dealt commitment and on NewPubPoly(Info())
	c.battery().pub("PriPoly.Commit", c.pub, c07SpecOver(g, c.ref, c07base{c.baseKind, c.baseArg, c.base}), 0)
}

// c07OtherPoly returns a different polynomial of the same threshold; in half
// of the cases it shares the secret with the dealer's polynomial.
func c07OtherPoly(c *c07ctx) *ref.C07Poly {
	cs := make([]*big.Int, len(c.ref.C))
	for i := range cs {
		cs[i] = c.rng.Big(c.g.Q)
	}
	if c.rng.IntN(2) == 0 {
		cs[0] = new(big.Int).Set(c.ref.C[0])
		if len(cs) == 1 {
			cs[0] = new(big.Int).Add(cs[0], big.NewInt(1))
		}
	}
	return ref.C07NewPoly(c.g.Q, cs)
}
