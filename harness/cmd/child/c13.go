package main

// C13 — PVSS and DLEQ: only correct shares verify; any t verified shares recover.
//
// The monitor plays dealer, trustees, third-party verifier and adversary around the
// real share/pvss and proof/dleq code. Ground truth is kept by the harness: it knows
// the secret, every private key and — for every mutated view — which received items
// still carry their original value. Files: c13.go (driver, honest runs, DLEQ),
// c13_mut.go (views, mutation matrix, verify-iff-untouched oracles).

import (
	"bytes"
	"crypto/cipher"
	"encoding/hex"
	"fmt"
	"math/big"
	"strings"
	"sync"

	"go.dedis.ch/kyber/v4"
	"go.dedis.ch/kyber/v4/group/edwards25519"
	"go.dedis.ch/kyber/v4/group/p256"
	"go.dedis.ch/kyber/v4/pairing/bn256"
	"go.dedis.ch/kyber/v4/proof/dleq"
	"go.dedis.ch/kyber/v4/share"
	"go.dedis.ch/kyber/v4/share/pvss"

	"verif/internal/gen"
	"verif/internal/groups"
	"verif/internal/mon"
)

func init() { register("C13", c13) }

// c13Suite gives every simulated party its own suite whose RandomStream is a seeded XOF.
type c13Suite struct {
	pvss.Suite
	rs cipher.Stream
}

func (s *c13Suite) RandomStream() cipher.Stream { return s.rs }

// c13Fam is one group family the protocol is run over.
type c13Fam struct {
	name     string
	mk       func() pvss.Suite
	q        *big.Int
	edge     []*big.Int
	torsName []string // small-order points (cofactor groups only), by encoding
	torsEnc  [][]byte
	weight   int // relative number of repetitions (per mille of the base budget)
}

func (f *c13Fam) suite(rng *gen.Rng) *c13Suite { return &c13Suite{Suite: f.mk(), rs: rng.Stream()} }

func c13Fams(r *mon.R) []*c13Fam {
	fams := []*c13Fam{
		{name: "ed25519", mk: func() pvss.Suite { return edwards25519.NewBlakeSHA256Ed25519() }, weight: 1000},
		{name: "p256", mk: func() pvss.Suite { return p256.NewBlakeSHA256P256() }, weight: 1000},
		{name: "bn256.G1", mk: func() pvss.Suite { return bn256.NewSuiteG1() }, weight: 350},
	}
	for _, f := range fams {
		g := f.mk()
		f.q = new(big.Int).Set(g.Scalar().GroupOrder().ToBigInt())
		f.edge = gen.Edge(f.q)
	}
	// Small-order points of edwards25519 (cofactor 8): the library's own decoder decides
	// whether they can reach the protocol at all; if it refuses them the torsion classes are skipped.
	ed := fams[0]
	cands := []struct{ name, hexs string }{
		{"T2", "ecffffffffffffffffffffffffffffffffffffffffffffffffffffffffffff7f"},
		{"T8", "26e8958fc2b227b045c3f489f2ef98f0d5dfac05d3c63339b13802886d53fc05"},
	}
	for _, c := range cands {
		b, _ := hex.DecodeString(c.hexs)
		g := ed.mk()
		T := g.Point()
		if err := T.UnmarshalBinary(b); err != nil {
			r.Note("ed25519 small-order point "+c.name+" rejected by decoder", err.Error())
			continue
		}
		// independent order check by doubling: 8T = O, T != O
		d := g.Point().Set(T)
		for k := 0; k < 3; k++ {
			d = g.Point().Add(d, d)
		}
		if !d.Equal(g.Point().Null()) || T.Equal(g.Point().Null()) {
			r.Note("ed25519 small-order candidate "+c.name+" unusable", "8T != O or T == O")
			continue
		}
		ed.torsName = append(ed.torsName, c.name)
		ed.torsEnc = append(ed.torsEnc, b)
	}
	r.Note("ed25519 torsion points usable", int64(len(ed.torsEnc)))
	return fams
}

// ---- small helpers (all copies go through encode -> decode) -------------------

func c13P(g kyber.Group, b []byte) kyber.Point {
	p := g.Point()
	if err := p.UnmarshalBinary(b); err != nil {
		panic(fmt.Sprintf("harness: decode of library-made point failed: %v (%x)", err, b))
	}
	return p
}
func c13S(g kyber.Group, b []byte) kyber.Scalar {
	s := g.Scalar()
	if err := s.UnmarshalBinary(b); err != nil {
		panic(fmt.Sprintf("harness: decode of library-made scalar failed: %v (%x)", err, b))
	}
	return s
}
func c13cpP(g kyber.Group, p kyber.Point) kyber.Point   { return c13P(g, groups.Enc(p)) }
func c13cpS(g kyber.Group, s kyber.Scalar) kyber.Scalar { return c13S(g, groups.Enc(s)) }
func c13cpPs(g kyber.Group, ps []kyber.Point) []kyber.Point {
	out := make([]kyber.Point, len(ps))
	for i, p := range ps {
		out[i] = c13cpP(g, p)
	}
	return out
}
func c13cpShare(g kyber.Group, s *pvss.PubVerShare) *pvss.PubVerShare {
	return &pvss.PubVerShare{
		S: share.PubShare{I: s.S.I, V: c13cpP(g, s.S.V)},
		P: dleq.Proof{C: c13cpS(g, s.P.C), R: c13cpS(g, s.P.R), VG: c13cpP(g, s.P.VG), VH: c13cpP(g, s.P.VH)},
	}
}
func c13cpShares(g kyber.Group, ss []*pvss.PubVerShare) []*pvss.PubVerShare {
	out := make([]*pvss.PubVerShare, len(ss))
	for i, s := range ss {
		out[i] = c13cpShare(g, s)
	}
	return out
}
func c13same(a, b kyber.Marshaling) bool { return bytes.Equal(groups.Enc(a), groups.Enc(b)) }
func c13hex(a kyber.Marshaling) string   { return mon.Hex(groups.Enc(a)) }

func c13ScalarFromBig(g kyber.Group, q, x *big.Int) kyber.Scalar {
	v := new(big.Int).Mod(x, q)
	b := v.Bytes()
	s := g.Scalar()
	if len(b) == 0 {
		return s.Zero()
	}
	if s.ByteOrder() == kyber.LittleEndian {
		for i, j := 0, len(b)-1; i < j; i, j = i+1, j-1 {
			b[i], b[j] = b[j], b[i]
		}
	}
	return s.SetBytes(b)
}

func c13shareHex(s *pvss.PubVerShare) map[string]any {
	return map[string]any{"I": s.S.I, "V": c13hex(s.S.V), "C": c13hex(s.P.C), "R": c13hex(s.P.R), "VG": c13hex(s.P.VG), "VH": c13hex(s.P.VH)}
}

// c13RefChallenge is the harness's own computation of the PVSS global challenge:
// hash of the commitment polynomial evaluated at 1..n (naive sum of powers, no Horner),
// all encrypted share values, all VG, all VH; then Scalar.Pick over the suite XOF.
func c13RefChallenge(su pvss.Suite, q *big.Int, commits []kyber.Point, enc []*pvss.PubVerShare) kyber.Scalar {
	h := su.Hash()
	for i := range enc {
		acc := su.Point().Null()
		xi := big.NewInt(int64(i + 1))
		pw := big.NewInt(1)
		for j := range commits {
			term := su.Point().Mul(c13ScalarFromBig(su, q, pw), commits[j])
			acc = su.Point().Add(acc, term)
			pw = new(big.Int).Mul(pw, xi)
			pw.Mod(pw, q)
		}
		h.Write(groups.Enc(acc))
	}
	for _, e := range enc {
		h.Write(groups.Enc(e.S.V))
	}
	for _, e := range enc {
		h.Write(groups.Enc(e.P.VG))
	}
	for _, e := range enc {
		h.Write(groups.Enc(e.P.VH))
	}
	return su.Scalar().Pick(su.XOF(h.Sum(nil)))
}

// ---- monitor entry ------------------------------------------------------------

type c13Job struct {
	fam  *c13Fam
	kind string // "sess" | "dleq" | "multi"
	n, t int
	rep  int
}

func (j c13Job) id() string {
	switch j.kind {
	case "sess":
		return fmt.Sprintf("%s/sess/n=%d/t=%d/rep=%d", j.fam.name, j.n, j.t, j.rep)
	case "multi":
		return fmt.Sprintf("%s/multi/n=%d/t=%d/rep=%d", j.fam.name, j.n, j.t, j.rep)
	}
	return fmt.Sprintf("%s/dleq/rep=%d", j.fam.name, j.rep)
}

func c13(r *mon.R) {
	r.SetRule("per group family (ed25519, p256, bn256.G1), every n in 2..10 and every t in 1..n, several sessions per (n,t) " +
		"with secret class (0,1,2,q-1,edge,random) and base point H class (random, G, 7G) cycled by repetition index. " +
		"Honest run: EncShares; every share verified singly and in batch against a challenge the harness recomputes itself; " +
		"DecShare per trustee (x_i*dec == enc checked); VerifyDecShare singly and in batch; RecoverSecret on all/sampled k-subsets (t<=k<=n) " +
		"in random consistent orders must give secret*G; every size below t, and t-1 distinct shares padded with duplicates, must be refused. " +
		"Mutation matrix: one field of one item changed (S.I, S.V, P.C, P.R, P.VG, P.VH, key X_i, commitment coefficient, H/G, expected challenge; " +
		"kinds +G, negate, random, identity, double, +1, zero, +small-order point on ed25519) or a cross-trustee swap (share, proof, key, S.I, S.V, P.R). " +
		"Expectation per index is derived from ground truth: an index whose received share fields, key and evaluated commitment all still carry the original value " +
		"and whose recomputed global challenge is unchanged MUST verify; an index with any changed value MUST fail in the single-item API, be absent from batch results and be refused by DecShare; " +
		"an untouched index under a changed global challenge is not judged (the one global challenge legitimately invalidates all). " +
		"Decryption phase has no global coupling: batch result must be exactly the untouched indices and RecoverSecret must return secret*G iff >= t untouched remain, else refuse. " +
		"An S.I change is judged only for t>1 (for t=1 the polynomial is constant and the index carries no information). " +
		"DLEQ: NewDLEQProof/NewDLEQProofBatch for x in edge/random, G,H in (base, random): verifies for (xG,xH); each of C,R,VG,VH,G,H,xG,xH changed to a different value must fail " +
		"(C is not judged when x=0: then xG=xH=O and the verification equations do not involve C; Verify does not recompute its challenge by design). " +
		"non-trivial = honest judgements with n>=2, and mutation judgements where the mutated value really differs from the original (encoding differs); distinct = (family,n,t,rep,class,api,index)")
	r.Assume("MarshalBinary/UnmarshalBinary round-trip (C03) is used for deep copies and for deciding whether a mutated value differs")
	r.Assume("group arithmetic, suite.Hash and suite.XOF/Scalar.Pick are taken from kyber itself (C01/C02/C19) when the harness recomputes the global challenge and secret*G")
	r.Assume("the verifier derives sH_i = commit.Eval(share.S.I).V as share/pvss/pvss_test.go does, and recomputes the global challenge from the data it received (the package exports no function for it)")

	fams := c13Fams(r)
	var jobs []c13Job
	for _, f := range fams {
		if *flagGroups != "" && !strings.Contains(*flagGroups, f.name) {
			continue
		}
		reps := r.N(2, 16) * f.weight / 1000
		if reps < 1 {
			reps = 1
		}
		for n := 2; n <= 10; n++ {
			for t := 1; t <= n; t++ {
				for rep := 0; rep < reps; rep++ {
					jobs = append(jobs, c13Job{f, "sess", n, t, rep})
				}
			}
		}
		nm := r.N(80, 800) * f.weight / 1000
		for rep := 0; rep < nm; rep++ {
			jobs = append(jobs, c13Job{fam: f, kind: "multi", rep: rep})
		}
		nd := r.N(60, 800) * f.weight / 1000
		for rep := 0; rep < nd; rep++ {
			jobs = append(jobs, c13Job{fam: f, kind: "dleq", rep: rep})
		}
	}
	mon.Parallel(len(jobs), func(w, k int) {
		j := jobs[k]
		id := j.id()
		if r.Only != "" && !strings.HasPrefix("C13/"+id, r.Only) && !strings.HasPrefix(id, r.Only) {
			return
		}
		r.Journal(w, "C13 %s seed=%d", id, r.Seed)
		r.Guard("C13/"+j.fam.name+"/"+j.kind, map[string]any{"job": id, "seed": r.Seed}, func() {
			switch j.kind {
			case "sess":
				rng := gen.New(r.Seed, "C13/sess/"+j.fam.name, j.n*100000+j.t*1000+j.rep)
				s := c13NewSess(r, j.fam, j.n, j.t, j.rep, id, rng)
				if s == nil {
					return
				}
				if !s.honest(r) {
					return // an honest run that fails is reported; mutations on top of it would only echo it
				}
				s.recover(r)
				if !s.dupKeys {
					s.mutEnc(r)
					s.mutDec(r)
				}
			case "multi":
				rng := gen.New(r.Seed, "C13/multi/"+j.fam.name, j.rep)
				c13Multi(r, j.fam, j.rep, id, rng)
			case "dleq":
				rng := gen.New(r.Seed, "C13/dleq/"+j.fam.name, j.rep)
				c13Dleq(r, j.fam, j.rep, id, rng)
			}
		})
	})
}

// ---- one PVSS session ----------------------------------------------------------

type c13Sess struct {
	fam      *c13Fam
	g        pvss.Suite // harness-side group operations
	n, t     int
	rep      int
	id       string
	rng      *gen.Rng
	x        []kyber.Scalar
	secret   kyber.Scalar
	SG       kyber.Point // secret*G
	o        *c13View    // the honest public view
	chal     kyber.Scalar
	sH       []kyber.Point
	secClass string
	hClass   string
	dupKeys  bool
}

// c13Seen remembers violation keys whose witness has already been written out, so that
// repeats only bump the counter (building a full hex witness thousands of times is wasteful).
var c13Seen sync.Map

// c13KeyClass coarsens a mutation class ("S.V:+G") to the stable input class used in
// violation keys: the field, with small-order shifts and index changes as classes of their own.
func c13KeyClass(class string) string {
	phase := ""
	if k := strings.IndexByte(class, '/'); k >= 0 {
		phase, class = class[:k]+":", class[k+1:]
	}
	switch {
	case strings.HasPrefix(class, "S.I:") || class == "swap:S.I":
		return phase + "share-index"
	case strings.HasPrefix(class, "swap:") || class == "dec:=enc":
		return phase + class
	}
	if k := strings.IndexByte(class, ':'); k >= 0 {
		field, kind := class[:k], class[k+1:]
		if strings.HasPrefix(kind, "+T") {
			return phase + field + "+small-order"
		}
		return phase + field
	}
	return phase + class
}

func (s *c13Sess) viol(r *mon.R, api, class, what, msg string, v *c13View, extra map[string]any) {
	key := "C13/" + s.fam.name + "/" + api + "/" + c13KeyClass(class) + "/" + what
	if _, dup := c13Seen.LoadOrStore(key, true); dup {
		r.Violation(key, msg, nil)
		return
	}
	d := map[string]any{"family": s.fam.name, "n": s.n, "t": s.t, "rep": s.rep, "seed": r.Seed, "job": s.id,
		"secret": c13hex(s.secret), "secret_class": s.secClass, "H_class": s.hClass, "api": api, "class": class}
	var xs []string
	for _, x := range s.x {
		xs = append(xs, c13hex(x))
	}
	d["private_keys"] = xs
	if v != nil {
		d["view"] = v.hexmap()
	}
	for k, e := range extra {
		d[k] = e
	}
	r.Violation(key, msg, d)
}

func c13PickSecret(f *c13Fam, g kyber.Group, rep int, rng *gen.Rng) (kyber.Scalar, string) {
	one := big.NewInt(1)
	switch rep % 6 {
	case 0:
		return g.Scalar().Pick(rng.Stream()), "random"
	case 1:
		return g.Scalar().Zero(), "0"
	case 2:
		return g.Scalar().One(), "1"
	case 3:
		return c13ScalarFromBig(g, f.q, new(big.Int).Sub(f.q, one)), "q-1"
	case 4:
		return c13ScalarFromBig(g, f.q, gen.Pick(rng, f.edge)), "edge"
	}
	return c13ScalarFromBig(g, f.q, big.NewInt(2)), "2"
}

func c13PickBase(g kyber.Group, sel int, rng *gen.Rng) (kyber.Point, string) {
	switch sel % 3 {
	case 1:
		return g.Point().Base(), "G"
	case 2:
		return g.Point().Mul(g.Scalar().SetInt64(7), nil), "7G"
	}
	return g.Point().Pick(rng.Stream()), "random"
}

func c13Keys(g kyber.Group, n int, rng *gen.Rng) ([]kyber.Scalar, []kyber.Point) {
	x := make([]kyber.Scalar, n)
	X := make([]kyber.Point, n)
	for i := 0; i < n; i++ {
		for {
			x[i] = g.Scalar().Pick(rng.Stream())
			if !x[i].Equal(g.Scalar().Zero()) {
				break
			}
		}
		X[i] = g.Point().Mul(x[i], nil)
	}
	return x, X
}

func c13NewSess(r *mon.R, f *c13Fam, n, t, rep int, id string, rng *gen.Rng) *c13Sess {
	g := f.suite(rng)
	s := &c13Sess{fam: f, g: g, n: n, t: t, rep: rep, id: id, rng: rng}
	var X []kyber.Point
	s.x, X = c13Keys(g, n, rng)
	// one session in eight has two trustees with the same key (honest checks only)
	if rep%8 == 7 && n >= 2 {
		s.x[1] = c13cpS(g, s.x[0])
		X[1] = c13cpP(g, X[0])
		s.dupKeys = true
	}
	s.secret, s.secClass = c13PickSecret(f, g, rep, rng)
	var H kyber.Point
	H, s.hClass = c13PickBase(g, rep/2+n+t, rng)
	s.SG = g.Point().Mul(c13cpS(g, s.secret), nil)

	dealer := f.suite(rng)
	enc, pub, err := pvss.EncShares(dealer, c13cpP(g, H), c13cpPs(g, X), c13cpS(g, s.secret), uint32(t))
	r.Op("pvss.EncShares", "dleq.NewDLEQProofBatch")
	desc := id + "/encshares"
	r.Eval("honest/EncShares", desc, true)
	if err != nil {
		s.viol(r, "EncShares", "honest", "error", "EncShares failed on honest input: "+err.Error(), nil, nil)
		return nil
	}
	if len(enc) != n || pub == nil {
		s.viol(r, "EncShares", "honest", "shape", fmt.Sprintf("EncShares returned %d shares for %d trustees", len(enc), n), nil, nil)
		return nil
	}
	base, commits := pub.Info()
	s.o = &c13View{G: g.Point().Base(), H: c13cpP(g, H), X: c13cpPs(g, X), commits: c13cpPs(g, commits), enc: c13cpShares(g, enc)}
	bad := ""
	if len(commits) != t || pub.Threshold() != int64(t) {
		bad = fmt.Sprintf("commitment polynomial has %d coefficients, threshold %d", len(commits), t)
	} else if !c13same(base, H) {
		bad = "commitment polynomial base is not H"
	} else if !c13same(pub.Commit(), g.Point().Mul(s.secret, H)) {
		bad = "constant commitment is not secret*H"
	}
	for i, e := range enc {
		if e.S.I != uint32(i) {
			bad = fmt.Sprintf("share %d carries index %d", i, e.S.I)
		}
	}
	if bad != "" {
		s.viol(r, "EncShares", "honest", "shape", bad, s.o, nil)
		return nil
	}
	return s
}

// pubPoly rebuilds a commitment polynomial object from a view (fresh copies).
func (s *c13Sess) pubPoly(v *c13View) *share.PubPoly {
	return share.NewPubPoly(s.g, c13cpP(s.g, v.H), c13cpPs(s.g, v.commits))
}

// honest runs verification, decryption and decryption-verification of the untouched session.
func (s *c13Sess) honest(r *mon.R) bool {
	g, o, n := s.g, s.o, s.n
	ok := true
	fail := func(api, what, msg string, extra map[string]any) {
		ok = false
		s.viol(r, api, "honest", what, msg, o, extra)
	}
	// reference challenge and per-share challenge fields
	s.chal = c13RefChallenge(g, s.fam.q, o.commits, o.enc)
	r.Eval("honest/global-challenge", s.id, true)
	for i, e := range o.enc {
		if !c13same(e.P.C, s.chal) {
			fail("EncShares", "challenge", fmt.Sprintf("share %d: proof challenge differs from H(commitments at 1..n, all sX, all VG, all VH)", i), map[string]any{"ref": c13hex(s.chal)})
			break
		}
	}
	pub := s.pubPoly(o)
	// a verifier that first derived (and, for a negative check, altered) an evaluation of the commitment polynomial must get
	// the true value when it evaluates the same polynomial object again
	if n > 0 {
		e := pub.Eval(o.enc[0].S.I)
		e.V.Add(e.V, g.Point().Base())
	}
	s.sH = make([]kyber.Point, n)
	for i := range s.sH {
		s.sH[i] = pub.Eval(o.enc[i].S.I).V
	}
	r.Op("share.PubPoly.Eval", "share.NewPubPoly")
	// single-item verification
	ver := s.fam.suite(s.rng)
	for i := 0; i < n; i++ {
		err := pvss.VerifyEncShare(ver, c13cpP(g, o.H), c13cpP(g, o.X[i]), c13cpP(g, s.sH[i]), c13cpS(g, s.chal), c13cpShare(g, o.enc[i]))
		r.Eval("honest/VerifyEncShare", fmt.Sprintf("%s/%d", s.id, i), true)
		if err != nil {
			fail("VerifyEncShare", "rejected", fmt.Sprintf("honest encrypted share %d rejected: %v", i, err), nil)
		}
	}
	r.Op("pvss.VerifyEncShare", "dleq.Proof.Verify")
	// batch
	{
		Xb, eb := c13cpPs(g, o.X), c13cpShares(g, o.enc)
		K, E, err := pvss.VerifyEncShareBatch(ver, c13cpP(g, o.H), Xb, c13cpPs(g, s.sH), s.pubPoly(o), eb)
		r.Op("pvss.VerifyEncShareBatch")
		r.Eval("honest/VerifyEncShareBatch", s.id, true)
		if err != nil {
			fail("VerifyEncShareBatch", "error", "honest batch failed: "+err.Error(), nil)
		} else if got, msg := c13mapBatch(eb, E, Xb, K); msg != "" {
			fail("VerifyEncShareBatch", "malformed", msg, nil)
		} else if len(got) != n {
			fail("VerifyEncShareBatch", "dropped", fmt.Sprintf("honest batch kept %v of %d", got, n), nil)
		}
		// the same batch with ONE commitment evaluation handed in altered (the commitment polynomial itself is honest): the
		// single-share API refuses that share, so the batch must drop exactly it
		if ok && n > 0 {
			jbad := s.rng.IntN(n)
			sHb := c13cpPs(g, s.sH)
			sHb[jbad] = g.Point().Add(sHb[jbad], g.Point().Base())
			Xb, eb := c13cpPs(g, o.X), c13cpShares(g, o.enc)
			K, E, err := pvss.VerifyEncShareBatch(ver, c13cpP(g, o.H), Xb, sHb, s.pubPoly(o), eb)
			r.Eval("enc/sH-argument-altered/VerifyEncShareBatch", s.id, true)
			if err == nil {
				if got, msg := c13mapBatch(eb, E, Xb, K); msg == "" {
					for _, k := range got {
						if k == jbad {
							fail("VerifyEncShareBatch", "altered-sH-argument-kept", fmt.Sprintf("batch keeps share %d although the commitment evaluation handed in for it was altered (VerifyEncShare refuses it)", jbad), map[string]any{"position": jbad})
						}
					}
				}
			}
		}
	}
	if !ok {
		return false
	}
	// decryption by every trustee (own suite each)
	o.dec = make([]*pvss.PubVerShare, n)
	for i := 0; i < n; i++ {
		tr := s.fam.suite(s.rng)
		d, err := pvss.DecShare(tr, c13cpP(g, o.H), c13cpP(g, o.X[i]), c13cpP(g, s.sH[i]), c13cpS(g, s.x[i]), c13cpS(g, s.chal), c13cpShare(g, o.enc[i]))
		r.Eval("honest/DecShare", fmt.Sprintf("%s/%d", s.id, i), true)
		if err != nil || d == nil {
			fail("DecShare", "error", fmt.Sprintf("trustee %d could not decrypt its honest share: %v", i, err), nil)
			continue
		}
		if d.S.I != uint32(i) {
			fail("DecShare", "index", fmt.Sprintf("decrypted share of trustee %d carries index %d", i, d.S.I), nil)
		}
		// x_i * (decrypted) must be the encrypted value
		if !c13same(g.Point().Mul(s.x[i], d.S.V), o.enc[i].S.V) {
			fail("DecShare", "value", fmt.Sprintf("x_%d * decrypted share != encrypted share", i), map[string]any{"dec": c13shareHex(d)})
		}
		if s.t == 1 && !c13same(d.S.V, s.SG) {
			fail("DecShare", "value", fmt.Sprintf("t=1: decrypted share %d is not secret*G", i), map[string]any{"dec": c13shareHex(d)})
		}
		o.dec[i] = c13cpShare(g, d)
	}
	r.Op("pvss.DecShare", "dleq.NewDLEQProof")
	if !ok {
		return false
	}
	for i := 0; i < n; i++ {
		err := pvss.VerifyDecShare(ver, c13cpP(g, o.G), c13cpP(g, o.X[i]), c13cpShare(g, o.enc[i]), c13cpShare(g, o.dec[i]))
		r.Eval("honest/VerifyDecShare", fmt.Sprintf("%s/%d", s.id, i), true)
		if err != nil {
			fail("VerifyDecShare", "rejected", fmt.Sprintf("honest decrypted share %d rejected: %v", i, err), nil)
		}
	}
	r.Op("pvss.VerifyDecShare")
	{
		db := c13cpShares(g, o.dec)
		D, err := pvss.VerifyDecShareBatch(ver, c13cpP(g, o.G), c13cpPs(g, o.X), c13cpShares(g, o.enc), db)
		r.Op("pvss.VerifyDecShareBatch")
		r.Eval("honest/VerifyDecShareBatch", s.id, true)
		if err != nil {
			fail("VerifyDecShareBatch", "error", "honest batch failed: "+err.Error(), nil)
		} else if got, msg := c13mapBatch(db, D, nil, nil); msg != "" {
			fail("VerifyDecShareBatch", "malformed", msg, nil)
		} else if len(got) != n {
			fail("VerifyDecShareBatch", "dropped", fmt.Sprintf("honest batch kept %v of %d", got, n), nil)
		}
	}
	// a share decrypted with another trustee's private key must not verify for this trustee
	if n >= 2 && !s.dupKeys {
		i := s.rng.IntN(n)
		j := (i + 1 + s.rng.IntN(n-1)) % n
		tr := s.fam.suite(s.rng)
		d, err := pvss.DecShare(tr, c13cpP(g, o.H), c13cpP(g, o.X[i]), c13cpP(g, s.sH[i]), c13cpS(g, s.x[j]), c13cpS(g, s.chal), c13cpShare(g, o.enc[i]))
		if err == nil && d != nil {
			e2 := pvss.VerifyDecShare(ver, c13cpP(g, o.G), c13cpP(g, o.X[i]), c13cpShare(g, o.enc[i]), c13cpShare(g, d))
			r.Eval("dec/wrong-private-key", fmt.Sprintf("%s/%d/%d", s.id, i, j), true)
			if e2 == nil {
				fail("VerifyDecShare", "wrong-private-key-accepted", fmt.Sprintf("share %d decrypted with private key of trustee %d verifies against X_%d", i, j, i), map[string]any{"dec": c13shareHex(d)})
			}
		}
	}
	if ok && s.rep == 0 {
		r.SampleClass("honest:"+s.fam.name+fmt.Sprint(s.n == s.t), map[string]any{"kind": "honest session", "job": s.id, "secret_class": s.secClass, "H_class": s.hClass,
			"enc0": c13shareHex(o.enc[0]), "dec0": c13shareHex(o.dec[0]), "challenge": c13hex(s.chal)})
	}
	return ok
}

// c13mapBatch maps the shares returned by a batch call back to input positions by pointer
// identity and checks order and key alignment. Returns the positions kept.
func c13mapBatch(in, out []*pvss.PubVerShare, Xin, Kout []kyber.Point) ([]int, string) {
	if Xin != nil && len(Kout) != len(out) {
		return nil, fmt.Sprintf("batch returned %d keys and %d shares", len(Kout), len(out))
	}
	var got []int
	pos := 0
	for m, e := range out {
		found := -1
		for k := pos; k < len(in); k++ {
			if in[k] == e {
				found = k
				break
			}
		}
		if found < 0 {
			return nil, fmt.Sprintf("batch result %d is not one of the inputs in input order", m)
		}
		if Xin != nil && Kout[m] != Xin[found] {
			return nil, fmt.Sprintf("batch result %d: returned key is not the key given at position %d", m, found)
		}
		got = append(got, found)
		pos = found + 1
	}
	return got, ""
}

// recoverCall runs RecoverSecret on the listed positions of view v (consistent order, fresh copies).
func (s *c13Sess) recoverCall(v *c13View, idx []int) (kyber.Point, error) {
	g := s.g
	var X []kyber.Point
	var e, d []*pvss.PubVerShare
	for _, i := range idx {
		X = append(X, c13cpP(g, v.X[i]))
		e = append(e, c13cpShare(g, v.enc[i]))
		d = append(d, c13cpShare(g, v.dec[i]))
	}
	return pvss.RecoverSecret(s.fam.suite(s.rng), c13cpP(g, v.G), X, e, d, uint32(s.t), uint32(s.n))
}

// recover exercises RecoverSecret on honest data: subsets, orders, below-threshold, duplicates.
func (s *c13Sess) recover(r *mon.R) {
	n, t, o := s.n, s.t, s.o
	r.Op("pvss.RecoverSecret", "share.RecoverCommit")
	maxSub := r.N(10, 40)
	check := func(class string, idx []int, wantOK bool) {
		p, err := s.recoverCall(o, idx)
		r.Eval(class, fmt.Sprintf("%s/%v", s.id, idx), true)
		if wantOK {
			if err != nil {
				s.viol(r, "RecoverSecret", class, "refused", fmt.Sprintf("recovery from %d verified shares (t=%d) refused: %v", len(idx), t, err), o, map[string]any{"positions": idx})
			} else if !c13same(p, s.SG) {
				s.viol(r, "RecoverSecret", class, "wrong-secret", fmt.Sprintf("recovery from positions %v gave a point other than secret*G", idx), o, map[string]any{"positions": idx, "got": c13hex(p), "want": c13hex(s.SG)})
			}
		} else if err == nil {
			s.viol(r, "RecoverSecret", class, "not-refused", fmt.Sprintf("recovery from %v (fewer than t=%d distinct valid shares) returned a value", idx, t), o, map[string]any{"positions": idx, "got": c13hex(p)})
		}
	}
	for k := t; k <= n; k++ {
		subs := c13Subsets(n, k, maxSub, s.rng)
		for _, sub := range subs {
			ord := s.rng.Perm(k)
			idx := make([]int, k)
			for a, b := range ord {
				idx[a] = sub[b]
			}
			check("recover/k>=t", idx, true)
			if k <= 3 && k > 1 { // small: every order
				for _, pm := range gen.Perms(k)[1:] {
					id2 := make([]int, k)
					for a, b := range pm {
						id2[a] = sub[b]
					}
					check("recover/all-orders", id2, true)
				}
			}
		}
	}
	for k := 0; k < t; k++ {
		subs := c13Subsets(n, k, 3, s.rng)
		for _, sub := range subs {
			ord := s.rng.Perm(k)
			idx := make([]int, k)
			for a, b := range ord {
				idx[a] = sub[b]
			}
			check("recover/below-t", idx, false)
		}
	}
	if t >= 2 {
		// t-1 distinct shares padded with duplicates up to >= t entries: still fewer than t valid shares
		sub := s.rng.Perm(n)[:t-1]
		idx := append([]int(nil), sub...)
		for len(idx) < t+1 {
			idx = append(idx, sub[s.rng.IntN(len(sub))])
		}
		s.rng.Shuffle(len(idx), func(a, b int) { idx[a], idx[b] = idx[b], idx[a] })
		check("recover/below-t-with-duplicates", idx, false)
	}
	// t distinct shares plus a duplicate of one of them: t verified shares are present
	{
		sub := s.rng.Perm(n)[:t]
		idx := append([]int(nil), sub...)
		idx = append(idx, sub[s.rng.IntN(len(sub))])
		s.rng.Shuffle(len(idx), func(a, b int) { idx[a], idx[b] = idx[b], idx[a] })
		check("recover/t-plus-duplicate", idx, true)
	}
}

// c13Subsets returns all k-subsets of [0,n) if there are at most max, else max random ones.
func c13Subsets(n, k, max int, rng *gen.Rng) [][]int {
	c := new(big.Int).Binomial(int64(n), int64(k))
	if c.IsInt64() && c.Int64() <= int64(max) {
		return gen.Subsets(n, k)
	}
	var out [][]int
	for i := 0; i < max; i++ {
		p := rng.Perm(n)[:k]
		out = append(out, append([]int(nil), p...))
	}
	return out
}
