package main

// C14, deniable mode: k participants run proof.DeniableProver over a harness
// clique Context (barrier per step, per-recipient copies of every message, a
// seeded hook that alters chosen messages in transit). Each participant proves
// its own statement and verifies the others.

import (
	"fmt"
	"sync"
	"time"

	"go.dedis.ch/kyber/v4"
	"go.dedis.ch/kyber/v4/proof"

	"verif/internal/gen"
	"verif/internal/mon"
)

const c14RuleDeniable = "deniable mode: per group, seeded scenarios with k in 2..5 participants, each with its own random predicate tree (<=3 branches, <=3 And terms, <=2 terms per Rep, shared variables, nested shapes) and claimed branch, running proof.DeniableProver concurrently over a harness clique Context (lock-step barrier; every recipient gets its own copy of every message). Scenario kinds: all honest with the full verifier matrix; cheaters (one secret of the claimed branch replaced, or a false branch claimed; truth re-evaluated in the group) with a partial verifier matrix; one or two proof messages altered in transit for one recipient (bit flip / byte substitution / truncation / zero fill / another participant's message, in the commitment or the response message, randomness commitment left intact); a verifier built for other points or another predicate; an absent participant (empty messages, as the Context documentation describes drop-outs). Oracle per ordered pair (i verifies j): error==nil iff j's claimed branch evaluates true under j's secrets and i saw j's proof messages unaltered and checked them against j's real statement; every honest prover's own slot must be nil. distinct = (group, scenario, pair); non-trivial = pair involves a statement beyond P=x*B or a rejection the harness established"

const c14KeySize = 128 // proof/deniable.go keySize: length of the randomness commitment that prefixes every proof message

// ---------------------------------------------------------------- clique context

type c14Clique struct {
	mu      sync.Mutex
	cond    *sync.Cond
	k       int
	active  []bool
	arrived []bool
	cur     [][]byte
	hist    [][][]byte // messages of every completed round
	mut     func(round, to, from int, msg []byte) []byte
}

func c14NewClique(k int) *c14Clique {
	c := &c14Clique{k: k, active: make([]bool, k), arrived: make([]bool, k), cur: make([][]byte, k)}
	c.cond = sync.NewCond(&c.mu)
	for i := range c.active {
		c.active[i] = true
	}
	return c
}

// complete must be called with mu held: closes the round if every active participant has contributed.
func (c *c14Clique) complete() {
	n, a := 0, 0
	for i := range c.active {
		if c.active[i] {
			n++
			if c.arrived[i] {
				a++
			}
		}
	}
	if a == 0 || a < n {
		return
	}
	out := make([][]byte, c.k)
	for i := range out {
		if c.active[i] {
			out[i] = c.cur[i]
		}
		c.cur[i] = nil
		c.arrived[i] = false
	}
	c.hist = append(c.hist, out)
	c.cond.Broadcast()
}

func (c *c14Clique) step(i int, msg []byte) [][]byte {
	c.mu.Lock()
	defer c.mu.Unlock()
	round := len(c.hist)
	c.cur[i] = append([]byte(nil), msg...)
	c.arrived[i] = true
	c.complete()
	for len(c.hist) == round {
		c.cond.Wait()
	}
	out := c.hist[round]
	res := make([][]byte, c.k)
	for j := range out {
		if j == i {
			res[j] = msg // own slot: the very slice passed in, as the Context contract says
			continue
		}
		if out[j] == nil {
			continue // absent participant: empty message
		}
		m := append([]byte(nil), out[j]...)
		if c.mut != nil {
			m = c.mut(round, i, j, m)
		}
		res[j] = m
	}
	return res
}

func (c *c14Clique) leave(i int) {
	c.mu.Lock()
	c.active[i] = false
	c.arrived[i] = false
	c.cur[i] = nil
	c.complete()
	c.mu.Unlock()
}

type c14Member struct {
	c     *c14Clique
	i     int
	seed  []byte
	suite proof.Suite
}

func (m *c14Member) Step(msg []byte) ([][]byte, error) { return m.c.step(m.i, msg), nil }
func (m *c14Member) Random() kyber.XOF                 { return m.suite.XOF(m.seed) }

// ---------------------------------------------------------------- scenarios

type c14Party struct {
	t       *c14Tree
	branch  int                     // claimed scope
	sec     map[string]kyber.Scalar // secrets actually given to the prover
	role    string
	honest  bool // ground truth: claimed branch evaluates true under sec
	absent  bool
	verify  []bool // verify[j]: run a verifier for j
	vroot   []*c14Node
	vpts    []map[string]kyber.Point
	wrongSt []string // non-empty: the verifier for j is built for another statement
}

type c14Transit struct {
	round, to, from int
	kind            string
	pos             int
	val             byte
	applied         bool
	orig, alt       []byte // what the sender sent / what the recipient saw
}

func c14Deniable(r *mon.R) {
	envs := c14SelectEnvs(*flagGroups)
	var jobs []c14Job
	for _, e := range envs {
		n := r.N(200, 4000)
		if e.name != "ed25519" {
			n = r.N(100, 2000)
		}
		for i := 0; i < n; i++ {
			jobs = append(jobs, c14Job{e, i})
		}
	}
	r.Op("proof.DeniableProver", "proof.Context.Step", "proof.Context.Random", "Predicate.Prover", "Predicate.Verifier")
	mon.Parallel(len(jobs), func(w, i int) {
		j := jobs[i]
		r.Journal(w, "C14 deniable %s scenario %d seed %d", j.env.name, j.idx, r.Seed)
		r.Guard("C14/"+j.env.name+"/deniable/job", map[string]any{"group": j.env.name, "scenario": j.idx}, func() { c14DenRun(r, j.env, j.idx) })
	})
}

var c14DenKinds = []string{"honest", "cheaters", "transit", "wrong-statement", "mixed", "honest", "cheaters", "transit", "absent-unverified", "absent-verified"}

func c14DenRun(r *mon.R, env *c14Env, idx int) {
	rng := gen.New(r.Seed, "C14den"+env.name, idx)
	g := kyber.Group(env.mk(rng.Stream()))
	kind := c14DenKinds[idx%len(c14DenKinds)]
	k := 2 + rng.IntN(4)
	if kind == "absent-unverified" || kind == "absent-verified" {
		k = 3 + rng.IntN(3)
	}
	key := func(what string) string {
		if kind == "absent-unverified" || kind == "absent-verified" {
			return "C14/deniable/" + kind + "/" + what // independent of the group
		}
		return "C14/" + env.name + "/deniable/" + kind + "/" + what
	}
	parties := make([]*c14Party, k)
	for i := range parties {
		p := &c14Party{t: c14Gen(g, rng, c14GenOpt{maxBranches: 3, maxReps: 3, maxTerms: 2, allowNestedOr: true}), role: "honest"}
		var trueIdx, falseIdx []int
		for b, v := range p.t.truth {
			if v {
				trueIdx = append(trueIdx, b)
			} else {
				falseIdx = append(falseIdx, b)
			}
		}
		p.branch = gen.Pick(rng, trueIdx)
		p.sec = c14CopyScalars(g, p.t.sec)
		if kind == "cheaters" || kind == "mixed" {
			order := p.t.root.scalarOrder()
			switch rng.IntN(5) {
			case 0, 1: // replace one secret used by the claimed branch
				xs := p.t.scopes[p.branch].scalarNames(order)
				x := gen.Pick(rng, xs)
				if rng.IntN(2) == 0 {
					p.sec[x] = c14RandScalar(g, rng)
				} else {
					p.sec[x] = g.Scalar().Add(p.sec[x], g.Scalar().One())
				}
				p.role = "secret-of-claimed-branch-replaced:" + x
			case 2: // claim a false branch
				if len(falseIdx) > 0 {
					p.branch = gen.Pick(rng, falseIdx)
					p.role = "false-branch-claimed"
				}
			case 3: // replace a secret the claimed branch does not use
				used := map[string]bool{}
				for _, x := range p.t.scopes[p.branch].scalarNames(order) {
					used[x] = true
				}
				for _, x := range p.t.root.scalarNames(order) {
					if !used[x] {
						p.sec[x] = c14RandScalar(g, rng)
						p.role = "secret-outside-claimed-branch-replaced:" + x
						break
					}
				}
			}
		}
		p.honest = c14Eval(g, p.t.scopes[p.branch], p.sec, p.t.pts)
		parties[i] = p
	}
	absent := -1
	if kind == "absent-unverified" || kind == "absent-verified" {
		absent = rng.IntN(k)
		parties[absent].absent = true
	}
	for i, p := range parties {
		p.verify = make([]bool, k)
		p.vroot = make([]*c14Node, k)
		p.vpts = make([]map[string]kyber.Point, k)
		p.wrongSt = make([]string, k)
		for j, q := range parties {
			if j == i {
				continue
			}
			p.verify[j] = true
			if (kind == "cheaters" || kind == "mixed") && rng.IntN(5) == 0 {
				p.verify[j] = false
			}
			if j == absent && kind == "absent-unverified" {
				p.verify[j] = false
			}
			p.vroot[j] = q.t.root
			p.vpts[j] = q.t.pts
		}
	}
	if kind == "wrong-statement" || kind == "mixed" {
		n := 1 + rng.IntN(2)
		for x := 0; x < n; x++ {
			i := rng.IntN(k)
			j := rng.IntN(k)
			if i == j || !parties[i].verify[j] || parties[i].wrongSt[j] != "" {
				continue
			}
			q := parties[j]
			names := q.t.root.pointNames()
			if rng.IntN(2) == 0 {
				nm := gen.Pick(rng, names)
				pts := c14CopyPoints(g, q.t.pts)
				pts[nm] = g.Point().Add(pts[nm], g.Point().Base())
				parties[i].vpts[j] = pts
				parties[i].wrongSt[j] = "point " + nm + " replaced by " + nm + "+G"
			} else {
				root := q.t.root.clone()
				rr := root.reps()
				a := rng.IntN(len(rr))
				ti := rng.IntN(len(rr[a].B))
				for _, nm := range names {
					if !q.t.pts[nm].Equal(q.t.pts[rr[a].B[ti]]) {
						rr[a].B[ti] = nm
						parties[i].vroot[j] = root
						parties[i].wrongSt[j] = fmt.Sprintf("term %d of Rep %d uses base %s", ti, a, nm)
						break
					}
				}
			}
		}
	}
	var transits []*c14Transit
	if kind == "transit" || kind == "mixed" {
		n := 1 + rng.IntN(2*k)
		for x := 0; x < n; x++ {
			tr := &c14Transit{round: 2 * rng.IntN(2), to: rng.IntN(k), from: rng.IntN(k), pos: int(rng.Uint32() >> 1), val: byte(1 + rng.IntN(255)),
				kind: gen.Pick(rng, []string{"bitflip", "bitflip", "bytesub", "truncate", "zero-fill", "other-participants-message", "high-digit"})}
			if tr.to == tr.from {
				continue
			}
			dup := false
			for _, o := range transits {
				if o.to == tr.to && o.from == tr.from {
					dup = true
				}
			}
			if !dup {
				transits = append(transits, tr)
			}
		}
	}

	cl := c14NewClique(k)
	if absent >= 0 {
		cl.active[absent] = false
	}
	if len(transits) > 0 {
		// called with cl.mu held; touches only the transit records and the round history
		cl.mut = func(round, to, from int, msg []byte) []byte {
			for _, tr := range transits {
				if tr.round != round || tr.to != to || tr.from != from || len(msg) <= c14KeySize {
					continue
				}
				tr.applied = true
				orig := append([]byte(nil), msg...)
				part := msg[c14KeySize:]
				switch tr.kind {
				case "bitflip":
					b := tr.pos % (len(part) * 8)
					part[b/8] ^= 1 << uint(b%8)
				case "bytesub":
					part[tr.pos%len(part)] ^= tr.val
				case "high-digit":
					// response message: the high nibble of one scalar's most significant byte raised from 0 to 9; else a bit flip
					sl := g.ScalarLen()
					b := tr.pos % (len(part) * 8)
					if round == 2 && len(part)%sl == 0 {
						msb := (tr.pos % (len(part) / sl)) * sl
						if g.Scalar().ByteOrder() == kyber.LittleEndian {
							msb += sl - 1
						}
						if part[msb]&0xf0 == 0 {
							part[msb] |= 0x90
							break
						}
					}
					part[b/8] ^= 1 << uint(b%8)
				case "truncate":
					msg = msg[:c14KeySize+tr.pos%len(part)]
				case "zero-fill":
					for x := range part {
						part[x] = 0
					}
				case "other-participants-message":
					for o := 0; o < len(cl.hist[round]); o++ {
						om := cl.hist[round][(from+1+o)%len(cl.hist[round])]
						if (from+1+o)%len(cl.hist[round]) != from && len(om) > c14KeySize {
							msg = append(append([]byte(nil), msg[:c14KeySize]...), om[c14KeySize:]...)
							break
						}
					}
				}
				tr.orig, tr.alt = orig, append([]byte(nil), msg...)
			}
			return msg
		}
	}

	// run
	results := make([][]error, k)
	panics := make([]string, k)
	var wg sync.WaitGroup
	for i := 0; i < k; i++ {
		if parties[i].absent {
			continue
		}
		// everything a participant uses is built here, sequentially, from its own copies
		p := parties[i]
		suite := env.mk(gen.New(r.Seed, "C14densuite"+env.name, idx*16+i).Stream())
		pred, ch := c14Build(p.t.root, p.t.paths[p.branch])
		prover := pred.Prover(suite, c14CopyScalars(g, p.sec), c14CopyPoints(g, p.t.pts), ch)
		vrfs := make([]proof.Verifier, k)
		for j := 0; j < k; j++ {
			if j != i && p.verify[j] {
				vp, _ := c14Build(p.vroot[j], nil)
				vrfs[j] = vp.Verifier(suite, c14CopyPoints(g, p.vpts[j]))
			}
		}
		mem := &c14Member{c: cl, i: i, seed: gen.New(r.Seed, "C14denrand"+env.name, idx*16+i).Bytes(32), suite: suite}
		proto := proof.DeniableProver(suite, i, prover, vrfs)
		wg.Add(1)
		go func(i int) {
			defer wg.Done()
			defer cl.leave(i)
			defer func() {
				if e := recover(); e != nil {
					panics[i] = fmt.Sprint(e)
				}
			}()
			results[i] = (func(proof.Context) []error)(proto)(mem)
		}(i)
	}
	done := make(chan struct{})
	go func() { wg.Wait(); close(done) }()
	select {
	case <-done:
	case <-time.After(5 * time.Minute):
		// watchdog only: never a verdict
		r.Inconclusive(fmt.Sprintf("deniable scenario %s/%d (%s, k=%d) did not terminate within the watchdog", env.name, idx, kind, k))
		return
	}

	// judge
	descr := func() map[string]any {
		var ps []map[string]any
		for i, p := range parties {
			ps = append(ps, map[string]any{"participant": i, "predicate": p.t.root.String(), "claimed_branch": p.branch, "role": p.role,
				"claimed_branch_true_under_prover_secrets": p.honest, "absent": p.absent, "points": c14HexPoints(p.t.pts), "prover_secrets": c14HexScalars(p.sec),
				"verifies": p.verify, "verifier_built_for_other_statement": p.wrongSt})
		}
		var ts []map[string]any
		for _, tr := range transits {
			ts = append(ts, map[string]any{"round": tr.round, "recipient": tr.to, "sender": tr.from, "kind": tr.kind, "pos": tr.pos, "val": tr.val, "applied": tr.applied, "sent": mon.Hex(tr.orig), "seen": mon.Hex(tr.alt)})
		}
		res := make([][]string, k)
		for i := range results {
			for _, e := range results[i] {
				if e == nil {
					res[i] = append(res[i], "nil")
				} else {
					res[i] = append(res[i], e.Error())
				}
			}
		}
		return map[string]any{"group": env.name, "scenario": idx, "kind": kind, "k": k, "participants": ps, "transit_alterations": ts, "results": res, "panics": panics}
	}
	r.NoteAdd(c14DP+"scenarios."+kind, 1)
	r.NoteAdd(c14DP+fmt.Sprintf("scenarios.k=%d", k), 1)
	if idx < len(c14DenKinds) && env.name == "ed25519" {
		d := descr()
		for _, p := range d["participants"].([]map[string]any) {
			delete(p, "points")
			delete(p, "prover_secrets")
		}
		r.SampleClass("den:"+kind, d)
	}
	for i, p := range parties {
		if p.absent {
			continue
		}
		if panics[i] != "" {
			r.Eval("deniable/"+kind+"/participant-terminates", fmt.Sprintf("%s|%d|%d", env.name, idx, i), true)
			d := descr()
			d["panicking_participant"] = i
			r.Violation(key("participant-panic"), "DeniableProver panics in a participant: "+panics[i], d)
			continue
		}
		errs := results[i]
		if len(errs) != k {
			d := descr()
			d["participant"] = i
			r.Violation(key("result-shape"), "DeniableProver returned a result vector of the wrong length", d)
			continue
		}
		// own slot
		if p.honest {
			r.Eval("deniable/"+kind+"/complete/own-slot", fmt.Sprintf("%s|%d|%d", env.name, idx, i), !p.t.simple())
			if errs[i] != nil {
				d := descr()
				d["participant"] = i
				r.Violation(key("complete/own-slot-error"), "an honest prover's own result slot carries an error: "+errs[i].Error(), d)
			}
		}
		for j, q := range parties {
			if j == i || !p.verify[j] {
				continue
			}
			altered := ""
			for _, tr := range transits {
				if tr.to == i && tr.from == j && tr.applied {
					// reference judgement: is what the recipient saw still the same commitments / still a valid answer?
					op, ap := tr.orig[c14KeySize:], tr.alt[c14KeySize:]
					same := false
					if tr.round == 0 {
						same = c14CommitsEqual(g, q.t.root, op, ap)
					} else {
						same = c14TailValid(g, q.t.root, q.t.pts, op, ap)
					}
					if same {
						r.NoteAdd(c14DP+"alteration-leaves-a-valid-transcript(not judged)", 1)
					} else {
						altered = tr.kind + fmt.Sprintf("/round%d", tr.round)
						if tr.round == 2 && c14NonCanonicalScalar(g, q.t.root, ap) {
							altered += "-noncanonical-scalar"
						}
					}
				}
			}
			if p.wrongSt[j] != "" && !q.honest && altered == "" && c14Eval(g, p.vroot[j].scopes()[q.branch], q.sec, p.vpts[j]) {
				// a cheater whose replaced secret happens to satisfy the other statement the verifier was built for (x+1 against P+G): not judged
				r.NoteAdd(c14DP+"cheater-satisfies-the-verifiers-other-statement(not judged)", 1)
				continue
			}
			expectOK := q.honest && altered == "" && p.wrongSt[j] == "" && !q.absent
			pair := fmt.Sprintf("%s|%d|%d->%d", env.name, idx, i, j)
			d := func() map[string]any {
				m := descr()
				m["verifier"], m["prover"] = i, j
				return m
			}
			switch {
			case expectOK:
				cls := "deniable/" + kind + "/complete/" + c14RoleClass(q.role)
				r.Eval(cls, pair, !q.t.simple())
				if errs[j] != nil {
					r.Violation(key("complete/rejected"), "verifier rejects an honest participant's deniable proof: "+errs[j].Error(), d())
				} else {
					r.NoteAdd(c14DP+"pairs.accepted", 1)
				}
			default:
				why := "cheating-prover/" + c14RoleClass(q.role)
				switch {
				case q.absent:
					why = "absent-prover"
				case altered != "":
					why = "altered-in-transit/" + altered
				case p.wrongSt[j] != "":
					why = "other-statement"
				}
				r.Eval("deniable/"+kind+"/sound/"+why, pair, true)
				if errs[j] == nil {
					r.Violation(key("sound/"+why+"/accepted"), "verifier accepts although "+why, d())
				} else {
					r.NoteAdd(c14DP+"pairs.rejected", 1)
				}
			}
		}
	}
}

func c14RoleClass(role string) string {
	for i := 0; i < len(role); i++ {
		if role[i] == ':' {
			return role[:i]
		}
	}
	return role
}
