package main

// C14, deniable mode: k participants run proof.DeniableProver over a harness
// clique Context (barrier per step, per-recipient copies of every message, a
// seeded hook that alters chosen messages in transit). Each participant proves
// its own statement and verifies the others.

import (
	"fmt"
	"sort"
	"strings"
	"sync"
	"time"

	"go.dedis.ch/kyber/v4"
	"go.dedis.ch/kyber/v4/proof"

	"verif/internal/gen"
	"verif/internal/mon"
)

const c14RuleDeniable = "deniable mode: per group, seeded scenarios with k in 2..5 participants, each with its own random predicate tree (<=3 branches, <=3 And terms, <=2 terms per Rep, shared variables, nested shapes) and claimed branch, running proof.DeniableProver concurrently over a harness clique Context (lock-step barrier; every recipient gets its own copy of every message). Scenario kinds: all honest with the full verifier matrix; cheaters (one secret of the claimed branch replaced, or a false branch claimed; truth re-evaluated in the group) with a partial verifier matrix; one or two proof messages altered in transit for one recipient (bit flip / byte substitution / truncation / zero fill / another participant's message, in the commitment or the response message, randomness commitment left intact); a verifier built for other points or another predicate; an absent participant (empty messages, as the Context documentation describes drop-outs). Oracle per ordered pair (i verifies j): error==nil iff j's claimed branch evaluates true under j's secrets and i saw j's proof messages unaltered and checked them against j's real statement; every honest prover's own slot must be nil. distinct = (group, scenario, pair); non-trivial = pair involves a statement beyond P=x*B or a rejection the harness established"

const c14KeySize = 128 // proof/deniable.go keySize: length of the randomness commitment that prefixes every proof message

// ---------------------------------------------------------------- clique context

type c14Clique struct {
	mu      sync.Mutex
	cond    *sync.Cond
	k       int
	active  []bool
	arrived []bool
	cur     [][]byte
	hist    [][][]byte // messages of every completed round
	mut     func(round, to, from int, msg []byte) []byte

	// ground-truth ledger of the aborted-run scenarios (all under mu)
	fault    *c14Fault
	calls    []int        // number of Step calls made by each participant
	dead     []bool       // Step fails for good
	okRound  [][]int      // okRound[i][call] = round the call took part in and returned from, -1 if it failed
	badSlot  [][][]bool   // badSlot[i][call][j]: slot j handed to i by that call was not what j sent
	deliv    [][][][]byte // deliv[i][call]: the slot vector handed to i by that call (nil if it failed)
	finished []bool
	progress int // bumped by every Step call and every return of a participant
	goid     []int
	rnd      []byte
}

func c14NewClique(k int) *c14Clique {
	c := &c14Clique{k: k, active: make([]bool, k), arrived: make([]bool, k), cur: make([][]byte, k),
		calls: make([]int, k), dead: make([]bool, k), okRound: make([][]int, k), badSlot: make([][][]bool, k), deliv: make([][][][]byte, k), finished: make([]bool, k), goid: make([]int, k)}
	c.cond = sync.NewCond(&c.mu)
	for i := range c.active {
		c.active[i] = true
	}
	return c
}

// complete must be called with mu held: closes the round if every active participant has contributed.
func (c *c14Clique) complete() {
	n, a := 0, 0
	for i := range c.active {
		if c.active[i] {
			n++
			if c.arrived[i] {
				a++
			}
		}
	}
	if a == 0 || a < n {
		return
	}
	out := make([][]byte, c.k)
	for i := range out {
		if c.active[i] {
			out[i] = c.cur[i]
		}
		c.cur[i] = nil
		c.arrived[i] = false
	}
	c.hist = append(c.hist, out)
	c.cond.Broadcast()
}

// step is the Context.Step of participant i, with the scenario's fault applied.
func (c *c14Clique) step(i int, msg []byte) ([][]byte, error) {
	c.mu.Lock()
	defer c.mu.Unlock()
	call := c.calls[i]
	c.calls[i]++
	c.progress++
	for c.arrived[i] { // a skipped contribution of this participant still belongs to an open round
		c.cond.Wait()
	}
	f := c.fault
	if c.dead[i] || (f.hits(i) && (f.kind == "step-error" || f.kind == "step-error-transient") && f.step == call) {
		c.okRound[i] = append(c.okRound[i], -1)
		c.badSlot[i] = append(c.badSlot[i], nil)
		c.deliv[i] = append(c.deliv[i], nil)
		if c.dead[i] || f.kind == "step-error" {
			c.dead[i] = true
			c.active[i] = false
			c.cur[i] = nil
		} else {
			c.cur[i] = nil // contributes nothing to this round
			c.arrived[i] = true
		}
		c.complete()
		return nil, errC14Injected
	}
	round := len(c.hist)
	c.cur[i] = append([]byte(nil), msg...)
	c.arrived[i] = true
	c.complete()
	for len(c.hist) == round {
		c.cond.Wait()
	}
	out := c.hist[round]
	res := make([][]byte, c.k)
	for j := range out {
		if j == i {
			res[j] = msg // own slot: the very slice passed in, as the Context contract says
			continue
		}
		if out[j] == nil {
			continue // absent participant: empty message
		}
		m := append([]byte(nil), out[j]...)
		if c.mut != nil {
			m = c.mut(round, i, j, m)
		}
		res[j] = m
	}
	bad := make([]bool, c.k)
	if f.hits(i) && f.kind == "garbled" && f.step == call {
		res, bad = c14Garble(f.variant, i, res, c.rnd)
	}
	c.okRound[i] = append(c.okRound[i], round)
	c.badSlot[i] = append(c.badSlot[i], bad)
	cp := make([][]byte, len(res))
	for j := range res {
		cp[j] = append([]byte(nil), res[j]...)
	}
	c.deliv[i] = append(c.deliv[i], cp)
	return res, nil
}

func (c *c14Clique) leave(i int) {
	c.mu.Lock()
	c.finished[i] = true
	c.progress++
	c.active[i] = false
	c.arrived[i] = false
	c.cur[i] = nil
	c.complete()
	c.mu.Unlock()
}

type c14Member struct {
	c     *c14Clique
	i     int
	seed  []byte
	suite proof.Suite
}

func (m *c14Member) Step(msg []byte) ([][]byte, error) { return m.c.step(m.i, msg) }
func (m *c14Member) Random() kyber.XOF {
	x := m.suite.XOF(m.seed)
	if f := m.c.fault; f.hits(m.i) && f.kind == "random-error" {
		return &c14FailXOF{XOF: x, n: f.step}
	}
	return x
}

// ---------------------------------------------------------------- scenarios

type c14Party struct {
	t          *c14Tree
	branch     int                     // claimed scope
	sec        map[string]kyber.Scalar // secrets actually given to the prover
	role       string
	honest     bool // ground truth: claimed branch evaluates true under sec
	absent     bool
	verify     []bool // verify[j]: run a verifier for j
	vroot      []*c14Node
	vpts       []map[string]kyber.Point
	wrongSt    []string // non-empty: the verifier for j is built for another statement
	selfVerify bool     // a verifier for the participant's own slot is handed to DeniableProver
}

type c14Transit struct {
	round, to, from int
	kind            string
	pos             int
	val             byte
	applied         bool
	orig, alt       []byte // what the sender sent / what the recipient saw
}

func c14Deniable(r *mon.R) {
	envs := c14SelectEnvs(*flagGroups)
	var jobs []c14Job
	for _, e := range envs {
		n := r.N(300, 6000)
		if e.name != "ed25519" {
			n = r.N(150, 3000)
		}
		for i := 0; i < n; i++ {
			jobs = append(jobs, c14Job{e, i})
		}
	}
	r.Op("proof.DeniableProver", "proof.Context.Step", "proof.Context.Random", "Predicate.Prover", "Predicate.Verifier")
	// Phase A: everything except the aborted-run scenarios beyond the first three of each fault class.
	// Phase B: the remaining aborted-run scenarios, except fault classes under which phase A proved a deadlock
	// (every further scenario of such a class would only leak blocked goroutines; the case list stays a
	// function of (seed, tier) and of the behaviour of the code under test).
	var jobsA, jobsB []c14Job
	seen := map[string]int{}
	fcOf := func(j c14Job) string {
		f, ok := c14AbortFaultFor(j.env, j.idx)
		if !ok {
			return ""
		}
		return j.env.name + "/" + f.kind + "/" + c14FaultClass(&f)
	}
	for _, j := range jobs {
		fc := fcOf(j)
		if fc == "" || seen[fc] < 3 {
			jobsA = append(jobsA, j)
			seen[fc]++
		} else {
			jobsB = append(jobsB, j)
		}
	}
	run := func(js []c14Job) {
		mon.Parallel(len(js), func(w, i int) {
			j := js[i]
			r.Journal(w, "C14 deniable %s scenario %d seed %d", j.env.name, j.idx, r.Seed)
			r.Guard("C14/"+j.env.name+"/deniable/job", map[string]any{"group": j.env.name, "scenario": j.idx}, func() { c14DenRun(r, j.env, j.idx) })
		})
	}
	run(jobsA)
	var keep []c14Job
	for _, j := range jobsB {
		if c14DeadClasses[fcOf(j)] > 0 {
			r.NoteAdd(c14DP+"aborted-scenarios-not-run(class deadlocks, see observed-only.deadlocked-scenarios)", 1)
			continue
		}
		keep = append(keep, j)
	}
	run(keep)
	r.Note(c14DP+"deadlock-detector.goroutine-dumps", c14DumpN.Load())
	r.Note(c14DP+"deadlock-detector.dump-ms-total", c14DumpNs.Load()/1e6)
	r.Note(c14DP+"deadlock-detector.dump-bytes-total", c14DumpBytes.Load())
}

var c14DenKinds = []string{"honest", "cheaters", "transit", "wrong-statement", "mixed", "honest", "cheaters", "transit", "absent-unverified", "absent-verified",
	"aborted", "aborted", "aborted", "aborted", "aborted"}

// c14AbortFaultFor returns the fault class of scenario idx if it belongs to the aborted-run family.
func c14AbortFaultFor(env *c14Env, idx int) (c14Fault, bool) {
	if c14DenKinds[idx%len(c14DenKinds)] != "aborted" {
		return c14Fault{}, false
	}
	menu := c14FaultMenu()
	nAb := 0
	for _, kd := range c14DenKinds {
		if kd == "aborted" {
			nAb++
		}
	}
	ord := idx/len(c14DenKinds)*nAb + idx%len(c14DenKinds) - (len(c14DenKinds) - nAb) + 13*len(env.name)
	return menu[ord%len(menu)], true
}

// classes of injected faults under which some participant was PROVEN deadlocked (all its goroutines blocked)
var c14DeadMu sync.Mutex
var c14DeadClasses = map[string]int{}

func c14DenRun(r *mon.R, env *c14Env, idx int) {
	rng := gen.New(r.Seed, "C14den"+env.name, idx)
	g := kyber.Group(env.mk(rng.Stream()))
	kind := c14DenKinds[idx%len(c14DenKinds)]
	k := 2 + rng.IntN(4)
	if kind == "absent-unverified" || kind == "absent-verified" {
		k = 3 + rng.IntN(3)
	}
	var fault *c14Fault
	if f, ok := c14AbortFaultFor(env, idx); ok {
		fault = &f
		if strings.HasPrefix(f.variant, "wrong-key-of-") {
			k = 3 + rng.IntN(3) // two undisturbed participants besides the equivocating one
		}
	}
	key := func(what string) string {
		if kind == "absent-unverified" || kind == "absent-verified" {
			return "C14/deniable/" + kind + "/" + what // independent of the group
		}
		return "C14/" + env.name + "/deniable/" + kind + "/" + what
	}
	parties := make([]*c14Party, k)
	for i := range parties {
		p := &c14Party{t: c14Gen(g, rng, c14GenOpt{maxBranches: 3, maxReps: 3, maxTerms: 2, allowNestedOr: true}), role: "honest"}
		var trueIdx, falseIdx []int
		for b, v := range p.t.truth {
			if v {
				trueIdx = append(trueIdx, b)
			} else {
				falseIdx = append(falseIdx, b)
			}
		}
		p.branch = gen.Pick(rng, trueIdx)
		p.sec = c14CopyScalars(g, p.t.sec)
		if kind == "cheaters" || kind == "mixed" {
			order := p.t.root.scalarOrder()
			switch rng.IntN(5) {
			case 0, 1: // replace one secret used by the claimed branch
				xs := p.t.scopes[p.branch].scalarNames(order)
				x := gen.Pick(rng, xs)
				if rng.IntN(2) == 0 {
					p.sec[x] = c14RandScalar(g, rng)
				} else {
					p.sec[x] = g.Scalar().Add(p.sec[x], g.Scalar().One())
				}
				p.role = "secret-of-claimed-branch-replaced:" + x
			case 2: // claim a false branch
				if len(falseIdx) > 0 {
					p.branch = gen.Pick(rng, falseIdx)
					p.role = "false-branch-claimed"
				}
			case 3: // replace a secret the claimed branch does not use
				used := map[string]bool{}
				for _, x := range p.t.scopes[p.branch].scalarNames(order) {
					used[x] = true
				}
				for _, x := range p.t.root.scalarNames(order) {
					if !used[x] {
						p.sec[x] = c14RandScalar(g, rng)
						p.role = "secret-outside-claimed-branch-replaced:" + x
						break
					}
				}
			}
		}
		p.honest = c14Eval(g, p.t.scopes[p.branch], p.sec, p.t.pts)
		parties[i] = p
	}
	absent := -1
	if kind == "absent-unverified" || kind == "absent-verified" {
		absent = rng.IntN(k)
		parties[absent].absent = true
	}
	for i, p := range parties {
		p.verify = make([]bool, k)
		p.vroot = make([]*c14Node, k)
		p.vpts = make([]map[string]kyber.Point, k)
		p.wrongSt = make([]string, k)
		p.selfVerify = (kind == "honest" || kind == "cheaters" || kind == "mixed") && rng.IntN(2) == 0
		for j, q := range parties {
			if j == i {
				continue
			}
			p.verify[j] = true
			if (kind == "cheaters" || kind == "mixed") && rng.IntN(5) == 0 {
				p.verify[j] = false
			}
			if j == absent && kind == "absent-unverified" {
				p.verify[j] = false
			}
			p.vroot[j] = q.t.root
			p.vpts[j] = q.t.pts
		}
	}
	if kind == "wrong-statement" || kind == "mixed" {
		n := 1 + rng.IntN(2)
		for x := 0; x < n; x++ {
			i := rng.IntN(k)
			j := rng.IntN(k)
			if i == j || !parties[i].verify[j] || parties[i].wrongSt[j] != "" {
				continue
			}
			q := parties[j]
			names := q.t.root.pointNames()
			if rng.IntN(2) == 0 {
				nm := gen.Pick(rng, names)
				pts := c14CopyPoints(g, q.t.pts)
				pts[nm] = g.Point().Add(pts[nm], g.Point().Base())
				parties[i].vpts[j] = pts
				parties[i].wrongSt[j] = "point " + nm + " replaced by " + nm + "+G"
			} else {
				root := q.t.root.clone()
				rr := root.reps()
				a := rng.IntN(len(rr))
				ti := rng.IntN(len(rr[a].B))
				for _, nm := range names {
					if !q.t.pts[nm].Equal(q.t.pts[rr[a].B[ti]]) {
						rr[a].B[ti] = nm
						parties[i].vroot[j] = root
						parties[i].wrongSt[j] = fmt.Sprintf("term %d of Rep %d uses base %s", ti, a, nm)
						break
					}
				}
			}
		}
	}
	var transits []*c14Transit
	if kind == "transit" || kind == "mixed" {
		n := 1 + rng.IntN(2*k)
		for x := 0; x < n; x++ {
			tr := &c14Transit{round: 2 * rng.IntN(2), to: rng.IntN(k), from: rng.IntN(k), pos: int(rng.Uint32() >> 1), val: byte(1 + rng.IntN(255)),
				kind: gen.Pick(rng, []string{"bitflip", "bitflip", "bytesub", "truncate", "zero-fill", "other-participants-message", "high-digit"})}
			if tr.to == tr.from {
				continue
			}
			dup := false
			for _, o := range transits {
				if o.to == tr.to && o.from == tr.from {
					dup = true
				}
			}
			if !dup {
				transits = append(transits, tr)
			}
		}
	}

	cl := c14NewClique(k)
	if absent >= 0 {
		cl.active[absent] = false
	}
	if fault != nil {
		if fault.who >= 0 {
			fault.who = rng.IntN(k)
		}
		cl.fault = fault
		cl.rnd = rng.Bytes(40)
	}
	if len(transits) > 0 {
		// called with cl.mu held; touches only the transit records and the round history
		cl.mut = func(round, to, from int, msg []byte) []byte {
			for _, tr := range transits {
				if tr.round != round || tr.to != to || tr.from != from || len(msg) <= c14KeySize {
					continue
				}
				tr.applied = true
				orig := append([]byte(nil), msg...)
				part := msg[c14KeySize:]
				switch tr.kind {
				case "bitflip":
					b := tr.pos % (len(part) * 8)
					part[b/8] ^= 1 << uint(b%8)
				case "bytesub":
					part[tr.pos%len(part)] ^= tr.val
				case "high-digit":
					// response message: the high nibble of one scalar's most significant byte raised from 0 to 9; else a bit flip
					sl := g.ScalarLen()
					b := tr.pos % (len(part) * 8)
					if round == 2 && len(part)%sl == 0 {
						msb := (tr.pos % (len(part) / sl)) * sl
						if g.Scalar().ByteOrder() == kyber.LittleEndian {
							msb += sl - 1
						}
						if part[msb]&0xf0 == 0 {
							part[msb] |= 0x90
							break
						}
					}
					part[b/8] ^= 1 << uint(b%8)
				case "truncate":
					msg = msg[:c14KeySize+tr.pos%len(part)]
				case "zero-fill":
					for x := range part {
						part[x] = 0
					}
				case "other-participants-message":
					for o := 0; o < len(cl.hist[round]); o++ {
						om := cl.hist[round][(from+1+o)%len(cl.hist[round])]
						if (from+1+o)%len(cl.hist[round]) != from && len(om) > c14KeySize {
							msg = append(append([]byte(nil), msg[:c14KeySize]...), om[c14KeySize:]...)
							break
						}
					}
				}
				tr.orig, tr.alt = orig, append([]byte(nil), msg...)
			}
			return msg
		}
	}

	// participants whose proof takes several rounds (the same statement proved 2 or 3 times in sequence through one
	// context, as multi-round provers such as the shuffles do): the participants of one clique then finish their own proofs
	// at different steps. Only in the all-honest kind, where every ordered pair must accept.
	rounds := make([]int, k)
	for i := range rounds {
		rounds[i] = 1
		if kind == "honest" && rng.IntN(2) == 0 {
			rounds[i] = 2 + rng.IntN(2)
		}
	}
	if kind == "honest" {
		r.NoteAdd(c14DP+fmt.Sprintf("honest.scenarios-with-round-counts=%v", c14SortedCopy(rounds)), 1)
	}

	// run
	results := make([][]error, k)
	panics := make([]string, k)
	var wg sync.WaitGroup
	for i := 0; i < k; i++ {
		if parties[i].absent {
			continue
		}
		// everything a participant uses is built here, sequentially, from its own copies
		p := parties[i]
		suite := env.mk(gen.New(r.Seed, "C14densuite"+env.name, idx*16+i).Stream())
		pred, ch := c14Build(p.t.root, p.t.paths[p.branch])
		prover := pred.Prover(suite, c14CopyScalars(g, p.sec), c14CopyPoints(g, p.t.pts), ch)
		if rounds[i] > 1 {
			seq := []proof.Prover{prover}
			for x := 1; x < rounds[i]; x++ {
				pr, chx := c14Build(p.t.root, p.t.paths[p.branch])
				seq = append(seq, pr.Prover(suite, c14CopyScalars(g, p.sec), c14CopyPoints(g, p.t.pts), chx))
			}
			prover = func(ctx proof.ProverContext) error {
				for _, f := range seq {
					if err := f(ctx); err != nil {
						return err
					}
				}
				return nil
			}
		}
		vrfs := make([]proof.Verifier, k)
		for j := 0; j < k; j++ {
			if j != i && p.verify[j] {
				var seq []proof.Verifier
				for x := 0; x < rounds[j]; x++ {
					vp, _ := c14Build(p.vroot[j], nil)
					seq = append(seq, vp.Verifier(suite, c14CopyPoints(g, p.vpts[j])))
				}
				if len(seq) == 1 {
					vrfs[j] = seq[0]
				} else {
					vrfs[j] = func(ctx proof.VerifierContext) error {
						for _, f := range seq {
							if err := f(ctx); err != nil {
								return err
							}
						}
						return nil
					}
				}
			}
		}
		if p.selfVerify {
			vp, _ := c14Build(p.t.root, nil)
			vrfs[i] = vp.Verifier(suite, c14CopyPoints(g, p.t.pts))
		}
		if fault.hits(i) && fault.kind == "prover-error" {
			prover = c14FailingProver(prover, fault.variant)
		}
		mem := &c14Member{c: cl, i: i, seed: gen.New(r.Seed, "C14denrand"+env.name, idx*16+i).Bytes(32), suite: suite}
		proto := proof.DeniableProver(suite, i, prover, vrfs)
		wg.Add(1)
		go func(i int) {
			defer wg.Done()
			defer cl.leave(i)
			defer func() {
				if e := recover(); e != nil {
					panics[i] = fmt.Sprint(e)
				}
			}()
			id := c14GoID()
			cl.mu.Lock()
			cl.goid[i] = id
			cl.mu.Unlock()
			results[i] = (func(proof.Context) []error)(proto)(mem)
		}(i)
	}
	done := make(chan struct{})
	go func() { wg.Wait(); close(done) }()
	// Wait. The timer only decides WHEN the goroutine states are looked at; a scenario is declared hung only if
	// every goroutine that could still wake another one of this scenario is blocked (a fact, not a timeout).
	hung := make([]bool, k)
	var hungWhere []string
	delay, waited := 500*time.Millisecond, time.Duration(0)
	lastProgress := -1
wait:
	for {
		select {
		case <-done:
			break wait
		case <-time.After(delay):
		}
		waited += delay
		if delay < 4*time.Second {
			delay *= 2
		}
		var roots []int
		var who []int
		cl.mu.Lock()
		started := cl.progress == lastProgress // look at the goroutines only if nothing moved since the last look
		lastProgress = cl.progress
		for i := range parties {
			if !parties[i].absent && !cl.finished[i] {
				if cl.goid[i] == 0 {
					started = false
				}
				roots = append(roots, cl.goid[i])
				who = append(who, i)
			}
		}
		cl.mu.Unlock()
		if started && len(roots) > 0 {
			if dead, where := c14AllBlocked(roots); dead {
				for _, i := range who {
					hung[i] = true
				}
				hungWhere = where
				break wait
			}
		}
		if waited > 5*time.Minute {
			// watchdog only: never a verdict
			r.Inconclusive(fmt.Sprintf("deniable scenario %s/%d (%s, k=%d) did not terminate within the watchdog", env.name, idx, kind, k))
			return
		}
	}
	anyHung := false
	for i := range hung {
		anyHung = anyHung || hung[i]
	}
	if anyHung {
		// finished participants published their results before cl.leave (mutex): take the lock once before reading them
		cl.mu.Lock()
		for i := range hung {
			if !hung[i] && !cl.finished[i] {
				hung[i] = true
			}
		}
		cl.mu.Unlock()
	}

	// judge
	descr := func() map[string]any {
		var ps []map[string]any
		for i, p := range parties {
			ps = append(ps, map[string]any{"participant": i, "predicate": p.t.root.String(), "claimed_branch": p.branch, "role": p.role,
				"claimed_branch_true_under_prover_secrets": p.honest, "absent": p.absent, "points": c14HexPoints(p.t.pts), "prover_secrets": c14HexScalars(p.sec),
				"verifies": p.verify, "verifier_built_for_other_statement": p.wrongSt})
		}
		var ts []map[string]any
		for _, tr := range transits {
			ts = append(ts, map[string]any{"round": tr.round, "recipient": tr.to, "sender": tr.from, "kind": tr.kind, "pos": tr.pos, "val": tr.val, "applied": tr.applied, "sent": mon.Hex(tr.orig), "seen": mon.Hex(tr.alt)})
		}
		res := make([][]string, k)
		for i := range results {
			if hung[i] {
				continue
			}
			for _, e := range results[i] {
				if e == nil {
					res[i] = append(res[i], "nil")
				} else {
					res[i] = append(res[i], e.Error())
				}
			}
		}
		return map[string]any{"group": env.name, "scenario": idx, "kind": kind, "k": k, "participants": ps, "transit_alterations": ts, "results": res, "panics": panics,
			"injected_fault": fault.String(), "participants_deadlocked": hung, "deadlocked_goroutines": hungWhere}
	}
	r.NoteAdd(c14DP+"scenarios."+kind, 1)
	r.NoteAdd(c14DP+fmt.Sprintf("scenarios.k=%d", k), 1)
	if idx < len(c14DenKinds) && env.name == "ed25519" {
		d := descr()
		for _, p := range d["participants"].([]map[string]any) {
			delete(p, "points")
			delete(p, "prover_secrets")
		}
		r.SampleClass("den:"+kind, d)
	}
	if anyHung {
		cls := kind
		if fault != nil {
			cls += "/" + fault.kind + "/" + c14FaultClass(fault)
		}
		r.NoteAdd(c14DP+"observed-only.deadlocked-scenarios."+cls, 1)
		if fault != nil {
			c14DeadMu.Lock()
			c14DeadClasses[env.name+"/"+fault.kind+"/"+c14FaultClass(fault)]++
			c14DeadMu.Unlock()
		}
		d := descr()
		for _, p := range d["participants"].([]map[string]any) {
			delete(p, "points")
			delete(p, "prover_secrets")
		}
		r.SampleClass("den-deadlock:"+cls, d)
		if kind != "aborted" {
			// outside the fault-injection family every participant is expected to return
			r.Inconclusive(fmt.Sprintf("deniable scenario %s/%d (%s, k=%d): participants deadlocked: %v", env.name, idx, kind, k, hungWhere))
		}
	}
	if kind == "aborted" {
		c14JudgeAborted(r, env, g, idx, k, parties, cl, fault, results, panics, hung, descr)
		return
	}
	for i, p := range parties {
		if p.absent || hung[i] {
			continue
		}
		if panics[i] != "" {
			r.Eval("deniable/"+kind+"/participant-terminates", fmt.Sprintf("%s|%d|%d", env.name, idx, i), true)
			d := descr()
			d["panicking_participant"] = i
			r.Violation(key("participant-panic"), "DeniableProver panics in a participant: "+panics[i], d)
			continue
		}
		errs := results[i]
		if len(errs) != k {
			d := descr()
			d["participant"] = i
			r.Violation(key("result-shape"), "DeniableProver returned a result vector of the wrong length", d)
			continue
		}
		// own slot
		if p.honest {
			r.Eval("deniable/"+kind+"/complete/own-slot", fmt.Sprintf("%s|%d|%d", env.name, idx, i), !p.t.simple())
			if errs[i] != nil {
				d := descr()
				d["participant"] = i
				r.Violation(key("complete/own-slot-error"), "an honest prover's own result slot carries an error: "+errs[i].Error(), d)
			}
		}
		if p.selfVerify && !p.honest {
			// the participant checks its own proof too: a cheater's own slot must not read "accepted"
			r.Eval("deniable/"+kind+"/sound/self-verified-cheater", fmt.Sprintf("%s|%d|%d", env.name, idx, i), true)
			if errs[i] == nil {
				d := descr()
				d["participant"] = i
				r.Violation(key("sound/self-verified-cheater/accepted"), "a participant whose secrets do not satisfy its claimed branch and who verifies its own slot reports nil for itself", d)
			}
		}
		if p.selfVerify {
			r.NoteAdd(c14DP+"participants-verifying-their-own-slot", 1)
		}
		for j, q := range parties {
			if j == i || !p.verify[j] {
				continue
			}
			altered := ""
			for _, tr := range transits {
				if tr.to == i && tr.from == j && tr.applied {
					// reference judgement: is what the recipient saw still the same commitments / still a valid answer?
					op, ap := tr.orig[c14KeySize:], tr.alt[c14KeySize:]
					same := false
					if tr.round == 0 {
						same = c14CommitsEqual(g, q.t.root, op, ap)
					} else {
						same = c14TailValid(g, q.t.root, q.t.pts, op, ap)
					}
					if same {
						r.NoteAdd(c14DP+"alteration-leaves-a-valid-transcript(not judged)", 1)
					} else {
						altered = tr.kind + fmt.Sprintf("/round%d", tr.round)
						if tr.round == 2 && c14NonCanonicalScalar(g, q.t.root, ap) {
							altered += "-noncanonical-scalar"
						}
					}
				}
			}
			if p.wrongSt[j] != "" && !q.honest && altered == "" && c14Eval(g, p.vroot[j].scopes()[q.branch], q.sec, p.vpts[j]) {
				// a cheater whose replaced secret happens to satisfy the other statement the verifier was built for (x+1 against P+G): not judged
				r.NoteAdd(c14DP+"cheater-satisfies-the-verifiers-other-statement(not judged)", 1)
				continue
			}
			expectOK := q.honest && altered == "" && p.wrongSt[j] == "" && !q.absent
			pair := fmt.Sprintf("%s|%d|%d->%d", env.name, idx, i, j)
			d := func() map[string]any {
				m := descr()
				m["verifier"], m["prover"] = i, j
				return m
			}
			switch {
			case expectOK:
				cls := "deniable/" + kind + "/complete/" + c14RoleClass(q.role)
				r.Eval(cls, pair, !q.t.simple())
				if errs[j] != nil {
					r.Violation(key("complete/rejected"), "verifier rejects an honest participant's deniable proof: "+errs[j].Error(), d())
				} else {
					r.NoteAdd(c14DP+"pairs.accepted", 1)
				}
			default:
				why := "cheating-prover/" + c14RoleClass(q.role)
				switch {
				case q.absent:
					why = "absent-prover"
				case altered != "":
					why = "altered-in-transit/" + altered
				case p.wrongSt[j] != "":
					why = "other-statement"
				}
				r.Eval("deniable/"+kind+"/sound/"+why, pair, true)
				if errs[j] == nil {
					r.Violation(key("sound/"+why+"/accepted"), "verifier accepts although "+why, d())
				} else {
					r.NoteAdd(c14DP+"pairs.rejected", 1)
				}
			}
		}
	}
}

func c14RoleClass(role string) string {
	for i := 0; i < len(role); i++ {
		if role[i] == ':' {
			return role[:i]
		}
	}
	return role
}

func c14SortedCopy(a []int) []int {
	b := append([]int(nil), a...)
	sort.Ints(b)
	return b
}
