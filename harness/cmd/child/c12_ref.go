package main

// Reference model for C12 in math/big and std crypto only: scalars of the
// Ed25519 group as residues mod l, Lagrange interpolation at 0, the EdDSA
// challenge H(R||A||m) and the unique threshold-Schnorr signature
// R || (r + H(R,A,m)*a mod l) of the group secrets a (long-term) and r
// (one-time), which the harness can compute because it holds every share.

import (
	"crypto/sha512"
	"math/big"
)

// c12L is the order of the Ed25519 prime-order subgroup.
var c12L, _ = new(big.Int).SetString("7237005577332262213973186563042994240857116359379907606001950938285454250989", 10)

// c12FromLE decodes a little-endian byte string.
func c12FromLE(b []byte) *big.Int {
	c := make([]byte, len(b))
	for i := range b {
		c[len(b)-1-i] = b[i]
	}
	return new(big.Int).SetBytes(c)
}

// c12ToLE32 encodes x (0 <= x < 2^256) as 32 little-endian bytes.
func c12ToLE32(x *big.Int) []byte {
	be := x.Bytes()
	out := make([]byte, 32)
	for i := range be {
		out[i] = be[len(be)-1-i]
	}
	return out
}

// c12Lagrange0 interpolates the polynomial through (idx[k]+1, ys[k]) at 0, mod q.
func c12Lagrange0(idx []int, ys []*big.Int, q *big.Int) *big.Int {
	acc := new(big.Int)
	for i := range idx {
		xi := big.NewInt(int64(idx[i] + 1))
		num := big.NewInt(1)
		den := big.NewInt(1)
		for j := range idx {
			if i == j {
				continue
			}
			xj := big.NewInt(int64(idx[j] + 1))
			num.Mul(num, xj)
			num.Mod(num, q)
			d := new(big.Int).Sub(xj, xi)
			d.Mod(d, q)
			den.Mul(den, d)
			den.Mod(den, q)
		}
		inv := new(big.Int).ModInverse(den, q)
		term := new(big.Int).Mul(ys[i], num)
		term.Mul(term, inv)
		acc.Add(acc, term)
		acc.Mod(acc, q)
	}
	return acc
}

// c12Challenge is the EdDSA challenge SHA-512(R || A || msg) read little-endian mod l.
func c12Challenge(R, A, msg []byte) *big.Int {
	h := sha512.New()
	h.Write(R)
	h.Write(A)
	h.Write(msg)
	x := c12FromLE(h.Sum(nil))
	return x.Mod(x, c12L)
}

// c12MulAdd returns r + h*a mod l.
func c12MulAdd(r, h, a *big.Int) *big.Int {
	x := new(big.Int).Mul(h, a)
	x.Add(x, r)
	return x.Mod(x, c12L)
}
