package main

// C08, reuse workloads: the other C08 jobs give every call fresh objects and
// private copies of every buffer, so state that survives between calls (a
// cached seed, a retained reference to a caller's slice, an input normalised
// in place) is invisible to them. Here objects, buffers, suites and rings are
// deliberately reused:
//   eddsa  : ONE EdDSA object loads a sequence of keys (reused buffer / fresh
//            buffers / after NewEdDSA); after each load Public, MarshalBinary
//            and Sign must equal crypto/ed25519 for the seed just loaded; the
//            caller's buffer is then overwritten and the object re-judged;
//   schnorr: one signing suite and one Scheme object across several keys and
//            messages; the same point / byte-slice objects are verified
//            repeatedly (same verdict) and must be byte-identical afterwards;
//   ring   : one anon.Set slice object reused across Sign/Verify calls with
//            changing signer index, scope and message; order and encodings of
//            the ring, message, scope, key and signature must be left untouched.

import (
	"bytes"
	"crypto/ed25519"
	"fmt"
	"math/big"

	"go.dedis.ch/kyber/v4"
	"go.dedis.ch/kyber/v4/sign/anon"
	"go.dedis.ch/kyber/v4/sign/eddsa"
	"go.dedis.ch/kyber/v4/sign/schnorr"

	"verif/internal/gen"
	"verif/internal/groups"
	"verif/internal/mon"
)

// ---------------------------------------------------------------------------
// EdDSA: one object, many keys

func c08ReuseEdDSAJob(r *mon.R, idx int) {
	rng := gen.New(r.Seed, "C08reuse/eddsa", idx)
	const where = "eddsa"
	r.Op("eddsa.UnmarshalBinary(reused object)", "eddsa.Sign(reused object)", "eddsa.MarshalBinary", "eddsa.Verify(repeated)")
	var hist []string
	var e *eddsa.EdDSA
	msgLens := []int{0, 1, 32, 64, 111, 112, 200, 4096}

	// judge compares the object's observable behaviour with crypto/ed25519 for `seed`.
	judge := func(stage string, step int, seed []byte) {
		std := ed25519.NewKeyFromSeed(seed)
		stdPub := []byte(std.Public().(ed25519.PublicKey))
		msg := rng.Bytes(msgLens[rng.IntN(len(msgLens))])
		msgCopy := c08Clone(msg)
		desc := fmt.Sprintf("%d|step=%d|%s", idx, step, stage)
		wit := func(extra map[string]any) func() map[string]any {
			return func() map[string]any {
				d := map[string]any{"job": idx, "step": step, "stage": stage, "history": append([]string(nil), hist...),
					"loaded_seed": mon.Hex(seed), "std_pub": mon.Hex(stdPub), "msg": mon.Hex(msgCopy)}
				for k, v := range extra {
					d[k] = v
				}
				return d
			}
		}
		var pub, mb, sig, sig2, held, heldSnap []byte
		var v1, v2 c08Out
		o := c08Run(func() error {
			pub = groups.Enc(e.Public)
			var err error
			if mb, err = e.MarshalBinary(); err != nil {
				return err
			}
			if sig, err = e.Sign(msg); err != nil {
				return err
			}
			sig = c08Clone(sig)
			v1 = c08Run(func() error { return eddsa.Verify(e.Public, msg, sig) })
			v2 = c08Run(func() error { return eddsa.Verify(e.Public, msg, sig) })
			if sig2, err = e.Sign(msg); err != nil {
				return err
			}
			// a returned signature belongs to the caller: a later Sign must not rewrite it
			held = sig2
			heldSnap = c08Clone(sig2)
			_, err = e.Sign(c08Cat(msg, []byte{0x42}))
			return err
		})
		if !o.accepted {
			c08Judge(r, where, "eddsa.EdDSA", "reuse/"+stage+"/usable", desc, true, c08Accept, o, wit(nil))
			return
		}
		c08Check(r, where, "eddsa.UnmarshalBinary", "reuse/"+stage+"/pubkey=crypto/ed25519", desc, bytes.Equal(pub, stdPub), wit(map[string]any{"kyber_pub": mon.Hex(pub)}))
		c08Check(r, where, "eddsa.MarshalBinary", "reuse/"+stage+"/private-encoding=crypto/ed25519", desc, bytes.Equal(mb, []byte(std)),
			func() map[string]any {
				d := wit(map[string]any{"kyber": mon.Hex(mb), "std": mon.Hex([]byte(std))})()
				// consequence: what a party that persists MarshalBinary() and reloads it later ends up with
				var e3 eddsa.EdDSA
				if len(mb) == 64 && e3.UnmarshalBinary(c08Clone(mb)) == nil {
					d["pub_after_reloading_the_marshalled_key"] = mon.Hex(groups.Enc(e3.Public))
					d["object_pub"] = mon.Hex(pub)
				}
				return d
			})
		stdSig := ed25519.Sign(std, msgCopy)
		c08Check(r, where, "eddsa.Sign", "reuse/"+stage+"/signature=crypto/ed25519", desc, bytes.Equal(sig, stdSig), wit(map[string]any{"kyber_sig": mon.Hex(sig), "std_sig": mon.Hex(stdSig)}))
		c08Check(r, where, "eddsa.Sign", "reuse/"+stage+"/deterministic-after-verify", desc, bytes.Equal(sig, sig2), wit(map[string]any{"first": mon.Hex(sig), "second": mon.Hex(sig2)}))
		c08Check(r, where, "eddsa.Sign", "reuse/returned-signature-not-rewritten-by-next-Sign", desc, bytes.Equal(held, heldSnap), wit(map[string]any{"returned": mon.Hex(heldSnap), "after_next_Sign": mon.Hex(held)}))
		c08Check(r, where, "eddsa.Sign", "reuse/inputs-left-untouched", desc, bytes.Equal(msg, msgCopy) && bytes.Equal(groups.Enc(e.Public), pub),
			wit(map[string]any{"msg_after": mon.Hex(msg), "pub_before": mon.Hex(pub), "pub_after": mon.Hex(groups.Enc(e.Public))}))
		// the signature the object emits must verify under the key of the seed it reports / was given
		c08Check(r, where, "crypto/ed25519.Verify", "reuse/"+stage+"/std-accepts-signature-under-loaded-key", desc, c08StdVerify(stdPub, msgCopy, sig), wit(map[string]any{"kyber_sig": mon.Hex(sig)}))
		if bytes.Equal(pub, stdPub) && bytes.Equal(sig, stdSig) {
			c08Judge(r, where, "eddsa.Verify", "reuse/"+stage+"/honest", desc, true, c08Accept, v1, wit(map[string]any{"sig": mon.Hex(sig)}))
			c08Check(r, where, "eddsa.Verify", "reuse/repeated-verdict-equal", desc, v1.accepted == v2.accepted && v1.panicked == v2.panicked, wit(map[string]any{"first": v1.err, "second": v2.err}))
		}
	}

	load := func(step int, mode, rel string, seed, buf []byte) bool {
		snap := c08Clone(buf)
		o := c08Run(func() error { return e.UnmarshalBinary(buf) })
		desc := fmt.Sprintf("%d|step=%d|%s|%s", idx, step, mode, rel)
		w := func() map[string]any {
			return map[string]any{"job": idx, "step": step, "history": append([]string(nil), hist...), "input": mon.Hex(snap), "input_after": mon.Hex(buf)}
		}
		c08Judge(r, where, "eddsa.UnmarshalBinary", "reuse/load/"+mode, desc, true, c08Accept, o, w)
		c08Check(r, where, "eddsa.UnmarshalBinary", "reuse/inputs-left-untouched", desc, bytes.Equal(buf, snap), w)
		return o.accepted
	}

	if idx%3 == 1 {
		e = eddsa.NewEdDSA(rng.Stream())
		hist = append(hist, "NewEdDSA(stream)")
		if mb, err := e.MarshalBinary(); err == nil && len(mb) == 64 {
			judge("after-NewEdDSA", 0, c08Clone(mb[:32]))
		}
	} else {
		e = &eddsa.EdDSA{}
		hist = append(hist, "zero object")
	}
	reused := make([]byte, 64)
	var prev []byte
	steps := r.N(6, 10)
	for s := 1; s <= steps; s++ {
		var seed []byte
		rel := "random-seed"
		switch c := rng.IntN(8); {
		case prev != nil && c == 0:
			seed, rel = c08Clone(prev), "same-seed-again"
		case prev != nil && c == 1:
			seed, rel = gen.FlipBit(prev, 255), "previous-seed-last-bit-flipped"
		case prev != nil && c == 2:
			seed, rel = gen.FlipBit(prev, 0), "previous-seed-first-bit-flipped"
		default:
			seed = rng.Bytes(32)
		}
		mode := "reused-buffer"
		if (idx%2 == 1 && rng.IntN(2) == 0) || rng.IntN(5) == 0 {
			mode = "fresh-buffer"
		}
		input := c08Cat(seed, []byte(ed25519.NewKeyFromSeed(seed).Public().(ed25519.PublicKey)))
		var buf []byte
		if mode == "reused-buffer" {
			copy(reused, input)
			buf = reused
		} else {
			buf = c08Clone(input)
		}
		hist = append(hist, fmt.Sprintf("step %d: UnmarshalBinary(%s) seed=%s (%s)", s, mode, mon.Hex(seed), rel))
		if !load(s, mode, rel, seed, buf) {
			continue
		}
		judge("after-load/"+mode, s, seed)
		// the caller goes on using its buffer: the loaded object must not care
		how := "filled-with-0xA5"
		if rng.IntN(2) == 0 {
			for i := range buf {
				buf[i] = 0xA5
			}
		} else {
			how = "overwritten-with-another-key"
			o := rng.Bytes(32)
			copy(buf, c08Cat(o, []byte(ed25519.NewKeyFromSeed(o).Public().(ed25519.PublicKey))))
		}
		hist = append(hist, fmt.Sprintf("step %d: caller's buffer %s (no call on the object)", s, how))
		judge("after-caller-buffer-mutated/"+mode, s, seed)
		prev = seed
		if len(hist) > 12 {
			hist = hist[len(hist)-12:]
		}
	}
}

// ---------------------------------------------------------------------------
// Schnorr: one suite / Scheme / point objects across keys and messages

func c08ReuseSchnorrJob(r *mon.R, g *c08Grp, idx int, heavy bool) {
	rng := gen.New(r.Seed, "C08reuse/schnorr/"+g.name, idx)
	signer := &c08SchnorrSuite{Group: g.grp, g: g, rs: rng.Stream()}   // ONE signing suite for everything
	verifier := &c08SchnorrSuite{Group: g.grp, g: g, rs: rng.Stream()} // the verifying party's own instance
	r.Op("schnorr.Sign(reused suite)", "schnorr.Verify(repeated)", "schnorr.Scheme(reused)")
	K, M := 3, 3
	if heavy {
		K, M = 2, 2
	}
	type kp struct {
		xb   *big.Int
		x    kyber.Scalar
		xEnc []byte
		A    kyber.Point // the SAME object is handed to every Verify
		pub  []byte      // snapshot of its encoding
		pubB []byte      // byte-slice object handed to every VerifyWithChecks
	}
	keys := make([]*kp, K)
	for i := range keys {
		xb := rng.Big(g.q)
		for xb.Sign() == 0 {
			xb = rng.Big(g.q)
		}
		k := &kp{xb: xb, x: g.scalarFromBig(xb)}
		k.xEnc = groups.Enc(k.x)
		k.A = g.point().Mul(k.x, nil)
		k.pub = groups.Enc(k.A)
		k.pubB = c08Clone(k.pub)
		keys[i] = k
	}
	msgs := make([][]byte, M)
	msgSnap := make([][]byte, M)
	for j := range msgs {
		msgs[j] = rng.Bytes([]int{0, 33, 200, 64}[(j+idx)%4])
		msgSnap[j] = c08Clone(msgs[j])
	}
	wit := func(i, j int, extra map[string]any) func() map[string]any {
		return func() map[string]any {
			d := map[string]any{"group": g.name, "job": idx, "key": i, "msg_index": j, "private": keys[i].xb.Text(16), "pub": mon.Hex(keys[i].pub), "msg": mon.Hex(msgSnap[j])}
			for k, v := range extra {
				d[k] = v
			}
			return d
		}
	}
	untouched := func(i, j int, sig, sigSnap []byte) (bool, map[string]any) {
		k := keys[i]
		ok := bytes.Equal(groups.Enc(k.A), k.pub) && bytes.Equal(k.pubB, k.pub) && bytes.Equal(msgs[j], msgSnap[j]) && bytes.Equal(groups.Enc(k.x), k.xEnc)
		if sig != nil {
			ok = ok && bytes.Equal(sig, sigSnap)
		}
		return ok, map[string]any{"pub_object_now": mon.Hex(groups.Enc(k.A)), "pub_bytes_now": mon.Hex(k.pubB), "msg_now": mon.Hex(msgs[j]), "private_now": mon.Hex(groups.Enc(k.x)), "sig_now": mon.Hex(sig), "sig_before": mon.Hex(sigSnap)}
	}
	sigs := make([][][]byte, K)
	// signing: keys and messages interleaved on the one suite
	for i := range keys {
		sigs[i] = make([][]byte, M)
	}
	var lastSig, lastSnap []byte
	for t := 0; t < K*M; t++ {
		i := t % K
		j := (t/K + i) % M
		if sigs[i][j] != nil {
			continue
		}
		desc := fmt.Sprintf("%d|key=%d|msg=%d", idx, i, j)
		var sig []byte
		o := c08Run(func() error {
			var err error
			sig, err = schnorr.Sign(signer, keys[i].x, msgs[j])
			return err
		})
		c08Judge(r, g.name, "schnorr.Sign", "reuse/suite-across-keys-and-messages", desc, true, c08Accept, o, wit(i, j, nil))
		if !o.accepted {
			continue
		}
		sigs[i][j] = c08Clone(sig)
		if lastSig != nil {
			c08Check(r, g.name, "schnorr.Sign", "reuse/returned-signature-not-rewritten-by-next-Sign", desc, bytes.Equal(lastSig, lastSnap),
				wit(i, j, map[string]any{"returned": mon.Hex(lastSnap), "after_next_Sign": mon.Hex(lastSig)}))
		}
		lastSig, lastSnap = sig, sigs[i][j]
		ok, d := untouched(i, j, nil, nil)
		c08Check(r, g.name, "schnorr.Sign", "reuse/inputs-left-untouched", desc, ok, wit(i, j, d))
	}
	// verification: same objects, repeatedly, honest and dishonest interleaved
	for i := range keys {
		for j := range msgs {
			if sigs[i][j] == nil {
				continue
			}
			sig := c08Clone(sigs[i][j]) // the object that is handed to every call below
			desc := fmt.Sprintf("%d|key=%d|msg=%d", idx, i, j)
			call := func(entry, class string, demand int, ki, mj int, repeat int) {
				var first c08Out
				for rep := 0; rep < repeat; rep++ {
					var o c08Out
					if entry == "schnorr.Verify" {
						o = c08Run(func() error { return schnorr.Verify(verifier, keys[ki].A, msgs[mj], sig) })
					} else {
						o = c08Run(func() error { return schnorr.VerifyWithChecks(verifier, keys[ki].pubB, msgs[mj], sig) })
					}
					cd := fmt.Sprintf("%s|%s|rep=%d", desc, class, rep)
					c08Judge(r, g.name, entry, "reuse/"+class, cd, true, demand, o, wit(ki, mj, map[string]any{"sig": mon.Hex(sigs[i][j]), "signed_by_key": i, "signed_msg": j, "repetition": rep}))
					if rep == 0 {
						first = o
					} else {
						c08Check(r, g.name, entry, "reuse/repeated-verdict-equal", cd, o.accepted == first.accepted && o.panicked == first.panicked,
							wit(ki, mj, map[string]any{"sig": mon.Hex(sigs[i][j]), "first": first.err, "later": o.err, "class": class}))
					}
					ok, d := untouched(ki, mj, sig, sigs[i][j])
					c08Check(r, g.name, entry, "reuse/inputs-left-untouched", cd, ok, wit(ki, mj, d))
				}
			}
			call("schnorr.Verify", "honest-repeated", c08Accept, i, j, 2)
			call("schnorr.Verify", "other-key-repeated", c08Reject, (i+1)%K, j, 2)
			if !bytes.Equal(msgSnap[j], msgSnap[(j+1)%M]) {
				call("schnorr.Verify", "other-message", c08Reject, i, (j+1)%M, 1)
			}
			call("schnorr.VerifyWithChecks", "honest-repeated", c08Accept, i, j, 2)
			call("schnorr.Verify", "honest-after-rejections", c08Accept, i, j, 1)
		}
	}
	// the point objects must still be the keys they were
	for i, k := range keys {
		fresh := g.point()
		ok := fresh.UnmarshalBinary(k.pub) == nil && fresh.Equal(k.A) && k.A.Equal(fresh)
		c08Check(r, g.name, "schnorr.Verify", "reuse/public-key-object-still-equal", fmt.Sprintf("%d|key=%d", idx, i), ok, wit(i, 0, map[string]any{"pub_object_now": mon.Hex(groups.Enc(k.A))}))
	}
	// one Scheme object across key pairs
	o := c08Run(func() error {
		sch := schnorr.NewScheme(signer)
		p1, P1 := sch.NewKeyPair(rng.Stream())
		p2, P2 := sch.NewKeyPair(rng.Stream())
		m1, m2 := rng.Bytes(40), rng.Bytes(41)
		s1, err := sch.Sign(p1, m1)
		if err != nil {
			return err
		}
		s2, err := sch.Sign(p2, m2)
		if err != nil {
			return err
		}
		s1, s2 = c08Clone(s1), c08Clone(s2)
		for _, st := range []struct {
			P    kyber.Point
			m, s []byte
			want bool
			what string
		}{{P1, m1, s1, true, "key1/msg1"}, {P2, m2, s2, true, "key2/msg2"}, {P1, m2, s2, false, "key1 on key2's signature"}, {P2, m1, s1, false, "key2 on key1's signature"}, {P1, m1, s1, true, "key1/msg1 again"}, {P2, m2, s2, true, "key2/msg2 again"}} {
			err := sch.Verify(st.P, st.m, st.s)
			if (err == nil) != st.want {
				return fmt.Errorf("Scheme.Verify %s: got %v, want accept=%v", st.what, err, st.want)
			}
		}
		return nil
	})
	c08Judge(r, g.name, "schnorr.Scheme", "reuse/one-scheme-two-keypairs-interleaved", fmt.Sprint(idx), true, c08Accept, o, wit(0, 0, nil))
}

// ---------------------------------------------------------------------------
// ring signatures: one anon.Set object across calls

func c08ReuseRingJob(r *mon.R, sn string, idx int, light bool) {
	rng := gen.New(r.Seed, "C08reuse/ring/"+sn, idx)
	suite := c08NewRingSuite(sn, rng.Stream())
	g := c08NewGrp(sn, suite.Group, false)
	where := "ring/" + sn
	r.Op("anon.Sign(reused ring)", "anon.Verify(repeated)")
	n := 1 + (idx+rng.IntN(2))%8
	if light && n > 3 {
		n = 1 + n%3
	}
	xs := make([]*big.Int, n)
	set := make(anon.Set, n) // ONE slice object, the same point objects, for every call
	snap := make([][]byte, n)
	for i := range xs {
		for {
			xs[i] = rng.Big(g.q)
			dup := xs[i].Sign() == 0
			for j := 0; j < i; j++ {
				dup = dup || xs[j].Cmp(xs[i]) == 0
			}
			if !dup {
				break
			}
		}
		set[i] = g.point().Mul(g.scalarFromBig(xs[i]), nil)
		snap[i] = groups.Enc(set[i])
	}
	ptrs := append([]kyber.Point(nil), set...)
	ringState := func() (bool, []string) {
		ok := len(set) == n
		now := make([]string, len(set))
		for i := range set {
			now[i] = mon.Hex(groups.Enc(set[i]))
			ok = ok && i < n && set[i] == ptrs[i] && bytes.Equal(groups.Enc(set[i]), snap[i])
		}
		return ok, now
	}
	rounds := 3
	if light {
		rounds = 2
	}
	for t := 0; t < rounds; t++ {
		mine := (idx + t*3) % n
		var scope []byte
		switch (idx + t) % 3 {
		case 1:
			scope = rng.Bytes(1 + rng.IntN(20))
		case 2:
			scope = []byte{}
		}
		msg := rng.Bytes([]int{0, 5, 64, 300}[(idx+t)%4])
		msgSnap := c08Clone(msg)
		var scopeSnap []byte
		if scope != nil {
			scopeSnap = append([]byte{}, scope...)
		}
		x := g.scalarFromBig(xs[mine])
		xEnc := groups.Enc(x)
		desc := fmt.Sprintf("%d|round=%d|n=%d|mine=%d|scope=%d", idx, t, n, mine, (idx+t)%3)
		wit := func(extra map[string]any) func() map[string]any {
			return func() map[string]any {
				_, now := ringState()
				before := make([]string, n)
				for i := range snap {
					before[i] = mon.Hex(snap[i])
				}
				d := map[string]any{"suite": sn, "job": idx, "round": t, "n": n, "mine": mine, "private": xs[mine].Text(16), "ring_before": before, "ring_now": now,
					"scope": c08ScopeStr(scopeSnap), "scope_now": c08ScopeStr(scope), "msg": mon.Hex(msgSnap), "msg_now": mon.Hex(msg)}
				for k, v := range extra {
					d[k] = v
				}
				return d
			}
		}
		inputsOK := func() bool {
			ok, _ := ringState()
			return ok && bytes.Equal(msg, msgSnap) && bytes.Equal(scope, scopeSnap) && (scope == nil) == (scopeSnap == nil) && bytes.Equal(groups.Enc(x), xEnc)
		}
		var sig []byte
		o := c08Run(func() error { sig = anon.Sign(suite, msg, set, scope, mine, x); return nil })
		c08Judge(r, where, "anon.Sign", "reuse/ring-object-across-calls", desc, true, c08Accept, o, wit(nil))
		if !o.accepted {
			continue
		}
		sigSnap := c08Clone(sig)
		c08Check(r, where, "anon.Sign", "reuse/inputs-left-untouched", desc, inputsOK(), wit(map[string]any{"private_now": mon.Hex(groups.Enc(x))}))
		verify := func(m []byte) (tag []byte, o c08Out) {
			o = c08Run(func() error {
				t, err := anon.Verify(suite, m, set, scope, sig)
				tag = t
				return err
			})
			return
		}
		tag1, v1 := verify(msg)
		c08Judge(r, where, "anon.Verify", "reuse/honest-repeated", desc+"|rep=0", true, c08Accept, v1, wit(map[string]any{"sig": mon.Hex(sigSnap)}))
		c08Check(r, where, "anon.Verify", "reuse/inputs-left-untouched", desc+"|rep=0", inputsOK() && bytes.Equal(sig, sigSnap), wit(map[string]any{"sig": mon.Hex(sigSnap), "sig_now": mon.Hex(sig)}))
		bad := c08Cat(msgSnap, []byte{1})
		_, vb := verify(bad)
		c08Judge(r, where, "anon.Verify", "reuse/other-message-between-honest-calls", desc, true, c08Reject, vb, wit(map[string]any{"sig": mon.Hex(sigSnap)}))
		tag2, v2 := verify(msg)
		c08Judge(r, where, "anon.Verify", "reuse/honest-repeated", desc+"|rep=1", true, c08Accept, v2, wit(map[string]any{"sig": mon.Hex(sigSnap)}))
		c08Check(r, where, "anon.Verify", "reuse/repeated-verdict-equal", desc, v1.accepted == v2.accepted && bytes.Equal(tag1, tag2),
			wit(map[string]any{"first": v1.err, "second": v2.err, "tag1": mon.Hex(tag1), "tag2": mon.Hex(tag2)}))
		c08Check(r, where, "anon.Verify", "reuse/inputs-left-untouched", desc+"|rep=1", inputsOK() && bytes.Equal(sig, sigSnap), wit(map[string]any{"sig": mon.Hex(sigSnap), "sig_now": mon.Hex(sig)}))
		// a verifier that holds its own copy of the ring (decoded from the snapshot) must agree
		o = c08Run(func() error {
			own := make(anon.Set, n)
			for i := range own {
				own[i] = g.point()
				if err := own[i].UnmarshalBinary(c08Clone(snap[i])); err != nil {
					return err
				}
			}
			_, err := anon.Verify(suite, c08Clone(msgSnap), own, scopeSnap, c08Clone(sigSnap))
			return err
		})
		c08Judge(r, where, "anon.Verify", "reuse/independent-copy-of-ring", desc, true, c08Accept, o, wit(map[string]any{"sig": mon.Hex(sigSnap)}))
	}
}

// c08ReuseJobs is called by c08 to enumerate the reuse jobs.
func c08ReuseJobs(r *mon.R, groupFilter string, add func(kind, where string, idx, weight int, run func())) {
	if groupFilter == "" || bytes.Contains([]byte(groupFilter), []byte("ed25519")) {
		for i, n := 0, r.N(150, 1500); i < n; i++ {
			i := i
			add("reuse-eddsa", "eddsa", i, 0, func() { c08ReuseEdDSAJob(r, i) })
		}
	}
	for _, G := range groups.Select(groups.All(), groupFilter) {
		if !G.CanMulNil {
			continue
		}
		g := c08NewGrp(G.Name, G.Grp, G.VarTime)
		heavy := G.Kind == "GT" || G.Name == "edvartime"
		n, w := r.N(3, 30), 2
		if heavy {
			n, w = r.N(1, 6), 20
		}
		for i := 0; i < n; i++ {
			i := i
			add("reuse-schnorr", g.name, i, w, func() { c08ReuseSchnorrJob(r, g, i, heavy) })
		}
	}
	for _, sn := range c08RingSuites {
		if groupFilter != "" && !bytes.Contains([]byte(groupFilter), []byte(sn)) {
			continue
		}
		n, light, w := r.N(8, 80), false, 10
		if sn == "edvartime" {
			n, light, w = r.N(2, 10), true, 60
		}
		for i := 0; i < n; i++ {
			sn, i := sn, i
			add("reuse-ring", sn, i, w, func() { c08ReuseRingJob(r, sn, i, light) })
		}
	}
}
