package main

// C11, Rabin DKG part: the execution engine. c11rExecute runs one scenario on
// the real share/dkg/rabin code and returns what was observed together with
// the ground-truth ledger the oracle (c11_rabin_oracle.go) judges it with.
// The engine records nothing in the recorder itself, so that a scenario can be
// re-executed (minimisation of a violating fault set) without side effects.

import (
	"bytes"
	"fmt"
	"runtime/debug"
	"sort"
	"strings"

	"go.dedis.ch/kyber/v4"
	"go.dedis.ch/kyber/v4/group/edwards25519"
	"go.dedis.ch/kyber/v4/share"
	dkgr "go.dedis.ch/kyber/v4/share/dkg/rabin"
	vssr "go.dedis.ch/kyber/v4/share/vss/rabin"
	"go.dedis.ch/kyber/v4/sign/schnorr"

	"verif/internal/gen"
)

// c11rByz is a Byzantine participant: the harness holding its long-term key.
type c11rByz struct {
	idx     int
	suite   c11rSuite
	long    kyber.Scalar
	absent  bool
	dealer  [2]*vssr.Dealer   // primary polynomial, alternative polynomial (same key, other session)
	poly    [2]*share.PriPoly // the secret polynomials, recovered from the dealers' plaintext deals
	commits [2][]kyber.Point  // their Feldman commitments
	sid     [2][]byte
	used    map[int]int            // honest recipient -> dealer instance whose share it holds
	opinion map[int]*vssr.Response // genuine verdict of this participant's Verifier on honest dealer d
	got     map[int]*vssr.Deal     // plaintext deal received from honest dealer d
}

// c11rPanic is a panic caught inside a kyber call.
type c11rPanic struct {
	Op, Msg, Stack string
}

// c11rOutcome is everything the oracle needs.
type c11rOutcome struct {
	scn    *c11rScn
	n, t   int
	isByz  []bool
	honest []int
	hist   []string
	fatal  string // harness could not set the scenario up (not a verdict about kyber)

	// ledger, indexed [dealer][recipient] unless said otherwise
	dealKind    [][]string // what the dealer delivered: "honest", "none", or the fault kind
	dealValid   [][]bool   // by construction: the recipient was given the dealer's genuine deal of a single session
	holdsBad    [][]bool   // recipient holds a share that is not on the dealer's primary polynomial
	noVerifier  [][]bool   // recipient has no VSS instance for the dealer (no deal, or ProcessDeal returned an error)
	procErr     [][]string
	approved    [][]int    // verdict of the recipient's code: 1 approval, 0 complaint, -1 none
	justKind    [][]string // Byzantine dealer's reaction to the recipient's complaint: "", "correct", "none", "wrong-share", ...
	consistent  []bool     // Byzantine dealer: every honest node that holds a share of it holds one of the primary polynomial
	respForeign [][]bool   // the recipient's response about this dealer carries a session id other than that of the dealer's session (the other nodes reject it)
	forgedJust  []bool     // an invalid justification was forged in this (honest) dealer's name
	rcFalse     []bool     // a Byzantine participant published a falsified reconstruct share for this dealer
	altPoly     []bool     // Byzantine dealer ran two sessions (two polynomials) under one key
	respEquiv   []bool     // a Byzantine participant broadcast both an approval and a complaint about this dealer
	scGenuine   []bool     // Byzantine dealer published the genuine commitments of its primary polynomial and nothing else
	holders     []int      // Byzantine dealer: number of honest nodes holding a genuine share of its primary polynomial

	qualT     [][]int // QUAL after SetTimeout, per participant (nil for Byzantine)
	qualF     [][]int // QUAL at the end
	certT     []bool
	finished  []bool
	dks       []*dkgr.DistKeyShare
	dksErr    []string
	scHonest  map[int][]kyber.Point // commitments published by honest dealers
	scErr     map[int]string
	byzCommit map[int][]kyber.Point // Feldman commitments of a Byzantine dealer's primary polynomial
	reconDeal map[int]bool          // dealers for which honest nodes issued ReconstructCommits
	honestMis []string              // honest-to-honest interactions that failed (each is a finding)
	panics    []c11rPanic
	count     map[string]int64
	suite     c11rSuite
	pubs      []kyber.Point
}

type c11rEngine struct {
	seed   int64
	s      *c11rScn
	rng    *gen.Rng
	hs     c11rSuite
	n, t   int
	longs  []kyber.Scalar
	pubs   []kyber.Point
	suites []c11rSuite
	gens   []*dkgr.DistKeyGenerator
	byz    map[int]*c11rByz
	resp   []c11rRespItem
	o      *c11rOutcome
}

func (e *c11rEngine) logf(format string, a ...any) {
	if len(e.o.hist) < 400 {
		e.o.hist = append(e.o.hist, fmt.Sprintf(format, a...))
	}
}

// try runs a call into kyber; a panic is recorded (the oracle turns it into a violation).
func (e *c11rEngine) try(op string, f func()) (ok bool) {
	defer func() {
		if r := recover(); r != nil {
			ok = false
			st := strings.Split(string(debug.Stack()), "\n")
			if len(st) > 30 {
				st = st[:30]
			}
			e.o.panics = append(e.o.panics, c11rPanic{Op: op, Msg: fmt.Sprint(r), Stack: strings.Join(st, "\n")})
			e.logf("PANIC in %s: %v", op, r)
		}
	}()
	f()
	return true
}

// order is the order in which recipient x sees the m broadcasts of a phase.
func (e *c11rEngine) order(phase string, x, m int) []int {
	if e.s.Perm == 0 || m < 2 {
		id := make([]int, m)
		for i := range id {
			id[i] = i
		}
		return id
	}
	return gen.New(e.seed, fmt.Sprintf("C11R/perm/%d/%s/%d", e.s.Perm, phase, x), e.s.Idx).Perm(m)
}

func (e *c11rEngine) coin(phase string, x, k int) bool {
	return gen.New(e.seed, fmt.Sprintf("C11R/coin/%d/%s/%d/%d", e.s.Perm, phase, x, k), e.s.Idx).IntN(2) == 1
}

func c11rRep(rep int) string {
	if rep > 0 {
		return " (redelivery)"
	}
	return ""
}

func c11rErrS(err error) string {
	if err == nil {
		return ""
	}
	s := err.Error()
	if len(s) > 90 {
		s = s[:90]
	}
	return s
}

func c11rGrid[T any](n int, v T) [][]T {
	g := make([][]T, n)
	for i := range g {
		g[i] = make([]T, n)
		for j := range g[i] {
			g[i][j] = v
		}
	}
	return g
}

func (e *c11rEngine) sign(b *c11rByz, msg []byte) []byte {
	sig, err := schnorr.Sign(b.suite, b.long, msg)
	if err != nil {
		panic("harness: schnorr.Sign: " + err.Error())
	}
	return sig
}

func (e *c11rEngine) mkResp(b *c11rByz, sid []byte, dealer int, approved bool) *dkgr.Response {
	r := &vssr.Response{SessionID: c11rB(sid), Index: uint32(b.idx), Approved: approved}
	r.Signature = e.sign(b, r.Hash(b.suite))
	return &dkgr.Response{Index: uint32(dealer), Response: r}
}

// c11rExecute runs scenario s.
func c11rExecute(seed int64, s *c11rScn) *c11rOutcome {
	n, t := s.N, s.T
	e := &c11rEngine{seed: seed, s: s, n: n, t: t, byz: map[int]*c11rByz{}}
	o := &c11rOutcome{scn: s, n: n, t: t, isByz: make([]bool, n), count: map[string]int64{},
		dealKind: c11rGrid(n, "honest"), dealValid: c11rGrid(n, true), holdsBad: c11rGrid(n, false), noVerifier: c11rGrid(n, false),
		procErr: c11rGrid(n, ""), approved: c11rGrid(n, -1), justKind: c11rGrid(n, ""), consistent: make([]bool, n),
		respForeign: c11rGrid(n, false), forgedJust: make([]bool, n), rcFalse: make([]bool, n), altPoly: make([]bool, n), holders: make([]int, n), scGenuine: make([]bool, n), respEquiv: make([]bool, n),
		qualT: make([][]int, n), qualF: make([][]int, n), certT: make([]bool, n), finished: make([]bool, n),
		dks: make([]*dkgr.DistKeyShare, n), dksErr: make([]string, n), scHonest: map[int][]kyber.Point{}, scErr: map[int]string{},
		byzCommit: map[int][]kyber.Point{}, reconDeal: map[int]bool{}}
	e.o = o
	for _, b := range s.Byz {
		o.isByz[b] = true
	}
	for i := 0; i < n; i++ {
		if !o.isByz[i] {
			o.honest = append(o.honest, i)
		}
	}
	e.rng = gen.New(seed, "C11R/run", s.Idx)
	e.hs = edwards25519.NewBlakeSHA256Ed25519WithRand(e.rng.Stream())
	o.suite = e.hs
	for i := 0; i < n; i++ {
		e.suites = append(e.suites, edwards25519.NewBlakeSHA256Ed25519WithRand(e.rng.Stream()))
		x := e.hs.Scalar().Pick(e.rng.Stream())
		e.longs = append(e.longs, x)
		e.pubs = append(e.pubs, e.hs.Point().Mul(x, nil))
	}
	o.pubs = e.pubs
	e.gens = make([]*dkgr.DistKeyGenerator, n)
	for _, i := range o.honest {
		var err error
		ok := e.try("NewDistKeyGenerator", func() {
			e.gens[i], err = dkgr.NewDistKeyGenerator(e.suites[i], c11rSc(e.suites[i], e.longs[i]), c11rPts(e.suites[i], e.pubs), uint32(t))
		})
		if !ok || err != nil || e.gens[i] == nil {
			o.honestMis = append(o.honestMis, fmt.Sprintf("NewDistKeyGenerator/refused-valid-parameters|node %d: %v", i, err))
			o.fatal = "NewDistKeyGenerator failed"
			return o
		}
	}
	for _, bi := range s.Byz {
		if msg := e.setupByz(bi); msg != "" {
			o.fatal = msg
			return o
		}
	}
	e.phaseDeals()
	e.phaseResponses()
	e.phaseTimeout()
	e.phaseSecretCommits()
	e.phaseFinish()
	return o
}

func (e *c11rEngine) setupByz(bi int) string {
	s := e.s
	b := &c11rByz{idx: bi, suite: e.suites[bi], long: c11rSc(e.suites[bi], e.longs[bi]), used: map[int]int{},
		opinion: map[int]*vssr.Response{}, got: map[int]*vssr.Deal{}}
	e.byz[bi] = b
	e.o.consistent[bi] = true
	if s.has(bi, "absent") {
		b.absent = true
		for _, h := range e.o.honest {
			e.o.dealKind[bi][h] = "none"
			e.o.dealValid[bi][h] = false
			e.o.noVerifier[bi][h] = true
		}
		return ""
	}
	need2 := false
	for _, a := range s.Atoms {
		if a.Who == bi && (a.Kind == "deal/alt-poly" || a.Kind == "deal/conflicting" || a.Kind == "cc/foreign-commitments" || a.Kind == "sc/alt-poly-equivocate") {
			need2 = true
		}
	}
	for k := 0; k < 2; k++ {
		if k == 1 && !need2 {
			break
		}
		var err error
		secret := b.suite.Scalar().Pick(e.rng.Stream())
		ok := e.try("vss.NewDealer", func() {
			b.dealer[k], err = vssr.NewDealer(b.suite, b.long, secret, c11rPts(b.suite, e.pubs), uint32(e.t))
		})
		if !ok || err != nil {
			return fmt.Sprintf("harness: NewDealer for Byzantine %d failed: %v", bi, err)
		}
		d := b.dealer[k]
		b.sid[k] = c11rB(d.SessionID())
		var shares []*share.PriShare
		for i := 0; i < e.n; i++ {
			pd, err := d.PlaintextDeal(i)
			if err != nil {
				return "harness: PlaintextDeal: " + err.Error()
			}
			shares = append(shares, c11rShare(e.hs, pd.SecShare))
		}
		p, err := share.RecoverPriPoly(e.hs, shares[:e.t], uint32(e.t), uint32(e.n))
		if err != nil {
			return "harness: RecoverPriPoly: " + err.Error()
		}
		for i := 0; i < e.n; i++ { // all n shares lie on it
			if !p.Eval(uint32(i)).V.Equal(shares[i].V) {
				return "harness: dealer shares are not on one polynomial of degree t-1"
			}
		}
		b.poly[k] = p
		_, b.commits[k] = p.Commit(nil).Info()
		// cross-check with the dealer's own view (unlocked by approvals in its private aggregator; the
		// dealer object is not used for responses afterwards: justifications are built by hand)
		for i := 0; i < e.n; i++ {
			d.UnsafeSetResponseDKG(uint32(i), true)
		}
		if cs := d.Commits(); len(cs) != e.t {
			return "harness: Dealer.Commits() unavailable"
		} else {
			for i := range cs {
				if !cs[i].Equal(b.commits[k][i]) {
					return "harness: Dealer.Commits() differ from the commitments of the recovered polynomial"
				}
			}
		}
	}
	e.o.byzCommit[bi] = b.commits[0]
	return ""
}

// ---------------------------------------------------------------- phase 1: deals

// byzDeals builds what Byzantine dealer b delivers to honest recipient h.
func (e *c11rEngine) byzDeals(b *c11rByz, h int) []*dkgr.Deal {
	o := e.o
	a, ok := e.s.atom(b.idx, "deal/", h)
	kind := "honest"
	if ok {
		kind = strings.TrimPrefix(a.Kind, "deal/")
	}
	if (kind == "alt-poly" || kind == "conflicting") && b.dealer[1] == nil {
		kind = "honest"
	}
	o.dealKind[b.idx][h] = kind
	b.used[h] = 0
	D := b.dealer[0]
	var enc *vssr.EncryptedDeal
	var err error
	other := (h + 1 + a.Arg%(e.n-1)) % e.n // an index different from h
	mutate := func(f func(d *vssr.Deal)) {
		pd, _ := D.PlaintextDeal(h)
		c := c11rCopyVDeal(b.suite, pd)
		f(c)
		enc, err = D.VerifSealDealStruct(h, c)
	}
	valid := false
	twice := false
	switch kind {
	case "honest":
		enc, err = D.EncryptedDeal(h)
		valid = true
	case "duplicate":
		enc, err = D.EncryptedDeal(h)
		valid, twice = true, true
	case "conflicting":
		// the genuine deal first, then a flawless deal of another session of the same dealer: the second one must be ignored
		enc, err = D.EncryptedDeal(h)
		if err == nil {
			var e2 *vssr.EncryptedDeal
			if e2, err = b.dealer[1].EncryptedDeal(h); err == nil {
				o.dealValid[b.idx][h] = true
				return []*dkgr.Deal{{Index: uint32(b.idx), Deal: enc}, {Index: uint32(b.idx), Deal: e2}}
			}
		}
	case "none":
		o.dealValid[b.idx][h] = false
		return nil
	case "cipher-flip":
		enc, err = D.EncryptedDeal(h)
		if err == nil {
			enc.Cipher[len(enc.Cipher)/2] ^= 0x01
		}
	case "sig-forged":
		enc, err = D.EncryptedDeal(h)
		if err == nil {
			enc.Signature[len(enc.Signature)/2] ^= 0x10
		}
	case "dh-tampered":
		enc, err = D.EncryptedDeal(h)
		if err == nil {
			enc.DHKey = b.suite.Point().Add(enc.DHKey, b.suite.Point().Base())
		}
	case "wrong-recipient":
		enc, err = D.EncryptedDeal(other)
	case "garbage":
		enc, err = D.VerifSealDeal(h, e.rng.Bytes(1+e.rng.IntN(160)))
	case "wrong-index":
		pd, _ := D.PlaintextDeal(other)
		enc, err = D.VerifSealDealStruct(h, c11rCopyVDeal(b.suite, pd))
	case "bad-share":
		mutate(func(d *vssr.Deal) { d.SecShare.V = b.suite.Scalar().Add(d.SecShare.V, b.suite.Scalar().One()) })
		o.holdsBad[b.idx][h] = true
		o.consistent[b.idx] = false
	case "bad-rnd-share":
		mutate(func(d *vssr.Deal) { d.RndShare.V = b.suite.Scalar().Add(d.RndShare.V, b.suite.Scalar().One()) })
	case "bad-commit":
		mutate(func(d *vssr.Deal) {
			k := a.Arg % len(d.Commitments)
			d.Commitments[k] = b.suite.Point().Add(d.Commitments[k], b.suite.Point().Base())
		})
	case "index-mismatch":
		mutate(func(d *vssr.Deal) { d.RndShare.I = uint32(other) })
	case "t-out-of-range":
		mutate(func(d *vssr.Deal) { d.T = []uint32{0, 1, uint32(e.n + 1)}[a.Arg%3] })
	case "t-other":
		mutate(func(d *vssr.Deal) {
			if a.Arg%2 == 0 {
				if e.t > 2 {
					d.T = 2
				} else {
					d.T = uint32(e.t + 1)
				}
			} else {
				if e.t < e.n {
					d.T = uint32(e.n)
				} else {
					d.T = uint32(e.t - 1)
				}
			}
		})
	case "wrong-sid":
		mutate(func(d *vssr.Deal) { d.SessionID = e.rng.Bytes(len(d.SessionID)) })
	case "alt-poly":
		enc, err = b.dealer[1].EncryptedDeal(h)
		b.used[h] = 1
		o.altPoly[b.idx] = true
		valid = true // a flawless deal of another session of the same dealer: the recipient cannot tell
		o.holdsBad[b.idx][h] = true
		o.consistent[b.idx] = false
	default:
		panic("harness: unknown deal fault " + kind)
	}
	if err != nil || enc == nil {
		panic(fmt.Sprintf("harness: could not seal deal (%s): %v", kind, err))
	}
	o.dealValid[b.idx][h] = valid
	out := []*dkgr.Deal{{Index: uint32(b.idx), Deal: enc}}
	if twice {
		out = append(out, out[0])
	}
	return out
}

func (e *c11rEngine) phaseDeals() {
	o := e.o
	n := e.n
	honestDeals := make([]map[int]*dkgr.Deal, n)
	for _, i := range o.honest {
		var err error
		ok := e.try("Deals", func() { honestDeals[i], err = e.gens[i].Deals() })
		if !ok || err != nil {
			o.honestMis = append(o.honestMis, fmt.Sprintf("Deals/failed|node %d: %v", i, err))
			honestDeals[i] = nil
		}
	}
	e.resp = nil
	// deals to honest recipients, each recipient in its own arrival order
	for _, j := range o.honest {
		var dealers []int
		for i := 0; i < n; i++ {
			if i != j {
				dealers = append(dealers, i)
			}
		}
		for _, k := range e.order("deal", j, len(dealers)) {
			i := dealers[k]
			var msgs []*dkgr.Deal
			if o.isByz[i] {
				b := e.byz[i]
				if b.absent {
					continue
				}
				msgs = e.byzDeals(b, j)
			} else if honestDeals[i] != nil && honestDeals[i][j] != nil {
				msgs = []*dkgr.Deal{honestDeals[i][j]}
			}
			if len(msgs) == 0 {
				o.noVerifier[i][j] = true
				e.logf("deal %d->%d: none", i, j)
				continue
			}
			if e.s.Dup {
				msgs = append(msgs, msgs...)
			}
			for mi, m := range msgs {
				var resp *dkgr.Response
				var err error
				e.try("ProcessDeal", func() { resp, err = e.gens[j].ProcessDeal(c11rCopyDeal(e.suites[j], m)) })
				if mi > 0 {
					o.count["deal.redelivered"]++
					if resp != nil {
						o.count["deal.second-deal-answered"]++ // not judged by itself: the consequences, if any, are
					}
					continue
				}
				if err != nil || resp == nil {
					o.noVerifier[i][j] = true
					o.procErr[i][j] = c11rErrS(err)
					o.count["deal.rejected-without-response"]++
					e.logf("deal %d->%d [%s]: error %q, no response", i, j, o.dealKind[i][j], c11rErrS(err))
					if !o.isByz[i] {
						o.honestMis = append(o.honestMis, fmt.Sprintf("ProcessDeal/honest-deal-rejected|node %d dealer %d: %v", j, i, err))
					}
					continue
				}
				if resp.Response.Approved {
					o.approved[i][j] = 1
					o.count["deal.approved"]++
				} else {
					o.approved[i][j] = 0
					o.count["deal.complaint"]++
					if !o.isByz[i] {
						o.honestMis = append(o.honestMis, fmt.Sprintf("ProcessDeal/honest-deal-complained|node %d dealer %d", j, i))
					}
				}
				if o.isByz[i] {
					if b := e.byz[i]; !bytes.Equal(resp.Response.SessionID, b.sid[b.used[j]]) {
						o.respForeign[i][j] = true
					}
					if !o.holdsBad[i][j] {
						o.holders[i]++
					}
				}
				e.logf("deal %d->%d [%s]: approved=%v foreign-session-id=%v", i, j, o.dealKind[i][j], resp.Response.Approved, o.respForeign[i][j])
				e.resp = append(e.resp, c11rRespItem{from: j, dealer: i, msgs: []*dkgr.Response{resp}})
			}
		}
	}
	// honest deals to Byzantine recipients: the Byzantine participant's own Verifier forms its genuine opinion
	for _, bi := range e.s.Byz {
		b := e.byz[bi]
		if b.absent {
			continue
		}
		for _, i := range o.honest {
			if honestDeals[i] == nil || honestDeals[i][bi] == nil {
				continue
			}
			var ver *vssr.Verifier
			var op *vssr.Response
			var err error
			e.try("vss.Verifier(byzantine)", func() {
				ver, err = vssr.NewVerifier(b.suite, b.long, c11rPt(b.suite, e.pubs[i]), c11rPts(b.suite, e.pubs))
				if err != nil {
					return
				}
				op, err = ver.ProcessEncryptedDeal(c11rCopyEnc(b.suite, honestDeals[i][bi].Deal))
				if err != nil {
					return
				}
				for k := 0; k < n; k++ {
					ver.UnsafeSetResponseDKG(uint32(k), true)
				}
				if d := ver.Deal(); d != nil {
					b.got[i] = c11rCopyVDeal(b.suite, d)
				}
			})
			if err != nil || op == nil {
				o.honestMis = append(o.honestMis, fmt.Sprintf("vss.ProcessEncryptedDeal/honest-deal-rejected-by-reference-verifier|dealer %d recipient %d: %v", i, bi, err))
				continue
			}
			if !op.Approved {
				o.honestMis = append(o.honestMis, fmt.Sprintf("vss.ProcessEncryptedDeal/honest-deal-complained-by-reference-verifier|dealer %d recipient %d", i, bi))
			}
			b.opinion[i] = op
		}
	}
}

// ---------------------------------------------------------------- phase 2/3: responses and justifications

type c11rRespItem struct {
	from, dealer int
	msgs         []*dkgr.Response
	equiv        bool // the variants are shown to every recipient, in an order chosen per recipient
	byz          bool
}

type c11rJustItem struct {
	from int // real sender
	msgs []*dkgr.Justification
	tag  string
}

func (e *c11rEngine) byzResponses() {
	o := e.o
	for _, bi := range e.s.Byz {
		b := e.byz[bi]
		if b.absent {
			continue
		}
		for d := 0; d < e.n; d++ {
			if d == bi {
				continue
			}
			var sid []byte
			approved := true
			if o.isByz[d] {
				if e.byz[d].absent {
					continue
				}
				sid = e.byz[d].sid[0]
			} else {
				op := b.opinion[d]
				if op == nil {
					continue
				}
				sid, approved = op.SessionID, op.Approved
			}
			kind := ""
			a, ok := e.s.atom(bi, "resp/", d)
			if ok {
				kind = strings.TrimPrefix(a.Kind, "resp/")
			}
			// a forged justification in an honest dealer's name needs a complaint of the forger on record
			if _, f := e.s.atom(bi, "just/forged-for-honest", d); f && !o.isByz[d] && kind == "" {
				kind = "false-complaint"
			}
			it := c11rRespItem{from: bi, dealer: d, byz: true}
			switch kind {
			case "":
				it.msgs = []*dkgr.Response{e.mkResp(b, sid, d, approved)}
			case "withhold":
				e.logf("resp %d about dealer %d: withheld", bi, d)
				continue
			case "false-complaint":
				it.msgs = []*dkgr.Response{e.mkResp(b, sid, d, false)}
			case "bad-signature":
				m := e.mkResp(b, sid, d, approved)
				m.Response.Signature[len(m.Response.Signature)/3] ^= 0x04
				it.msgs = []*dkgr.Response{m}
			case "wrong-sid":
				it.msgs = []*dkgr.Response{e.mkResp(b, e.rng.Bytes(len(sid)), d, approved)}
			case "wrong-index":
				m := e.mkResp(b, sid, d, false)
				m.Response.Index = uint32(o.honest[a.Arg%len(o.honest)]) // impersonates an honest verifier; signed with the wrong key
				it.msgs = []*dkgr.Response{m}
			case "equivocate":
				it.msgs = []*dkgr.Response{e.mkResp(b, sid, d, true), e.mkResp(b, sid, d, false)}
				it.equiv = true
				o.respEquiv[d] = true
			case "duplicate":
				m := e.mkResp(b, sid, d, approved)
				it.msgs = []*dkgr.Response{m, m}
			case "unknown-dealer":
				m := e.mkResp(b, sid, d, approved)
				m.Index = uint32(e.n + 3)
				it.msgs = []*dkgr.Response{m}
			default:
				panic("harness: unknown response fault " + kind)
			}
			e.logf("resp %d about dealer %d: %s", bi, d, map[bool]string{true: "as its verifier says", false: kind}[kind == ""])
			e.resp = append(e.resp, it)
		}
	}
}

func (e *c11rEngine) phaseResponses() {
	o := e.o
	e.byzResponses()
	var justs []c11rJustItem
	for _, x := range o.honest {
		for _, k := range e.order("resp", x, len(e.resp)) {
			it := e.resp[k]
			if it.from == x {
				continue
			}
			msgs := it.msgs
			if it.equiv && e.coin("resp", x, k) {
				msgs = []*dkgr.Response{msgs[1], msgs[0]}
			}
			for _, m := range msgs {
				reps := 1
				if e.s.Dup {
					reps = 2
				}
				for rep := 0; rep < reps; rep++ {
					var j *dkgr.Justification
					var err error
					e.try("ProcessResponse", func() { j, err = e.gens[x].ProcessResponse(c11rCopyResp(m)) })
					if err != nil {
						o.count["resp.rejected"]++
					} else {
						o.count["resp.accepted"]++
					}
					if rep == 0 && err != nil && !it.byz && !o.isByz[it.dealer] && !o.noVerifier[it.dealer][x] {
						o.honestMis = append(o.honestMis, fmt.Sprintf("ProcessResponse/honest-response-rejected|node %d, response of %d about dealer %d: %v", x, it.from, it.dealer, err))
					}
					if (it.byz || err != nil) && (rep == 0 || err == nil) {
						e.logf("resp of %d about dealer %d at node %d%s: err=%q justification=%v", it.from, it.dealer, x, c11rRep(rep), c11rErrS(err), j != nil)
					}
					if j != nil {
						o.count["just.by-honest-dealer"]++
						justs = append(justs, c11rJustItem{from: x, msgs: []*dkgr.Justification{j}, tag: "honest"})
					}
				}
			}
		}
	}
	// Byzantine dealers react to the complaints of honest recipients
	for _, bi := range e.s.Byz {
		b := e.byz[bi]
		if b.absent {
			continue
		}
		mk := func(h int, deal *vssr.Deal, k int) *dkgr.Justification {
			j := &vssr.Justification{SessionID: c11rB(b.sid[k]), Index: uint32(h), Deal: deal}
			j.Signature = e.sign(b, j.Hash(b.suite))
			return &dkgr.Justification{Index: uint32(bi), Justification: j}
		}
		for _, h := range o.honest {
			k := b.used[h]
			pd, _ := b.dealer[k].PlaintextDeal(h)
			genuine := c11rCopyVDeal(b.suite, pd)
			if o.approved[bi][h] == 0 {
				kind := "correct"
				if a, ok := e.s.atom(bi, "just/", h); ok && a.Kind != "just/unsolicited-bad" && a.Kind != "just/forged-for-honest" {
					kind = strings.TrimPrefix(a.Kind, "just/")
				}
				// the complaint is visible to the others only if it carries the session id of the deal the others hold
				o.justKind[bi][h] = kind
				switch kind {
				case "correct":
					justs = append(justs, c11rJustItem{from: bi, msgs: []*dkgr.Justification{mk(h, genuine, k)}, tag: "byz-correct"})
				case "none":
				case "wrong-share":
					genuine.SecShare.V = b.suite.Scalar().Add(genuine.SecShare.V, b.suite.Scalar().One())
					justs = append(justs, c11rJustItem{from: bi, msgs: []*dkgr.Justification{mk(h, genuine, k)}, tag: "byz-wrong-share"})
				case "other-index":
					oi := (h + 1) % e.n
					od, _ := b.dealer[k].PlaintextDeal(oi)
					justs = append(justs, c11rJustItem{from: bi, msgs: []*dkgr.Justification{mk(h, c11rCopyVDeal(b.suite, od), k)}, tag: "byz-other-index"})
				default:
					panic("harness: unknown justification fault " + kind)
				}
				e.logf("dealer %d, complaint of %d: justification %s", bi, h, kind)
			} else if a, ok := e.s.atom(bi, "just/unsolicited-bad", h); ok && a.Kind == "just/unsolicited-bad" && o.approved[bi][h] == 1 {
				genuine.SecShare.V = b.suite.Scalar().Add(genuine.SecShare.V, b.suite.Scalar().One())
				justs = append(justs, c11rJustItem{from: bi, msgs: []*dkgr.Justification{mk(h, genuine, k)}, tag: "byz-unsolicited-bad"})
				e.logf("dealer %d: unsolicited invalid justification for approving node %d", bi, h)
			}
		}
		// forged justification in the name of an honest dealer d, answering the forger's own false complaint
		for _, a := range e.s.atomsOf(bi, "just/forged-for-honest") {
			for _, d := range o.honest {
				if !a.hits(d) || b.got[d] == nil {
					continue
				}
				fd := c11rCopyVDeal(b.suite, b.got[d])
				fd.SecShare.V = b.suite.Scalar().Add(fd.SecShare.V, b.suite.Scalar().One())
				j := &vssr.Justification{SessionID: c11rB(fd.SessionID), Index: uint32(bi), Deal: fd}
				j.Signature = e.sign(b, j.Hash(b.suite)) // signed by the forger: the only key it has
				justs = append(justs, c11rJustItem{from: bi, msgs: []*dkgr.Justification{{Index: uint32(d), Justification: j}}, tag: "byz-forged-for-honest"})
				o.forgedJust[d] = true
				e.logf("participant %d forges an invalid justification in the name of honest dealer %d", bi, d)
			}
		}
	}
	for _, x := range o.honest {
		for _, k := range e.order("just", x, len(justs)) {
			it := justs[k]
			if it.from == x {
				continue
			}
			for _, m := range it.msgs {
				reps := 1
				if e.s.Dup {
					reps = 2
				}
				for rep := 0; rep < reps; rep++ {
					var err error
					e.try("ProcessJustification", func() { err = e.gens[x].ProcessJustification(c11rCopyJust(e.suites[x], m)) })
					if err != nil {
						o.count["just.rejected"]++
					} else {
						o.count["just.accepted"]++
					}
					if rep == 0 || err == nil {
						e.logf("justification (%s) from %d for dealer %d index %d at node %d%s: err=%q", it.tag, it.from, m.Index, m.Justification.Index, x, c11rRep(rep), c11rErrS(err))
					}
				}
			}
		}
	}
}

func (e *c11rEngine) qual(x int) []int {
	var q []int
	e.try("QUAL", func() {
		for _, v := range e.gens[x].QUAL() {
			q = append(q, int(v))
		}
	})
	sort.Ints(q)
	if q == nil {
		q = []int{}
	}
	return q
}

func (e *c11rEngine) phaseTimeout() {
	o := e.o
	for _, x := range o.honest {
		e.try("SetTimeout", func() { e.gens[x].SetTimeout() })
	}
	for _, x := range o.honest {
		o.qualT[x] = e.qual(x)
		e.try("Certified", func() { o.certT[x] = e.gens[x].Certified() })
		e.logf("after timeout: node %d QUAL=%v certified=%v", x, o.qualT[x], o.certT[x])
	}
}

// ---------------------------------------------------------------- phase 4: secret commits, complaints, reconstruction

type c11rSCItem struct {
	from  int
	msgs  []*dkgr.SecretCommits
	equiv bool
	byz   bool
}

func (e *c11rEngine) mkSC(b *c11rByz, commits []kyber.Point, sid []byte) *dkgr.SecretCommits {
	sc := &dkgr.SecretCommits{Index: uint32(b.idx), Commitments: c11rPts(b.suite, commits), SessionID: c11rB(sid)}
	sc.Signature = e.sign(b, sc.Hash(b.suite))
	return sc
}

// shifted returns the commitments of poly + c*prod_{k in keep}(x - (k+1)), which agree with the
// shares of the participants in keep and with nobody else's.
func (e *c11rEngine) shifted(b *c11rByz, keep []int) []kyber.Point {
	g := b.suite
	co := []kyber.Scalar{g.Scalar().Pick(e.rng.Stream())}
	for _, k := range keep {
		xk := g.Scalar().SetInt64(int64(k + 1))
		nx := make([]kyber.Scalar, len(co)+1)
		for i := range nx {
			nx[i] = g.Scalar().Zero()
		}
		for i, c := range co { // (sum c_i x^i)(x - xk)
			nx[i+1] = g.Scalar().Add(nx[i+1], c)
			nx[i] = g.Scalar().Sub(nx[i], g.Scalar().Mul(c, xk))
		}
		co = nx
	}
	out := c11rPts(g, b.commits[0])
	for i := range co {
		if i < len(out) {
			out[i] = g.Point().Add(out[i], g.Point().Mul(co[i], nil))
		}
	}
	return out
}

func (e *c11rEngine) byzSecretCommits() []c11rSCItem {
	o := e.o
	var out []c11rSCItem
	for _, bi := range e.s.Byz {
		b := e.byz[bi]
		if b.absent {
			continue
		}
		kind := ""
		var a c11rAtom
		if as := e.s.atomsOf(bi, "sc/"); len(as) > 0 {
			a = as[0]
			kind = strings.TrimPrefix(a.Kind, "sc/")
		}
		it := c11rSCItem{from: bi, byz: true}
		genuine := e.mkSC(b, b.commits[0], b.sid[0])
		o.scGenuine[bi] = kind == "" || kind == "duplicate" || kind == "none" || kind == "wrong-sid" || kind == "bad-signature"
		switch kind {
		case "":
			it.msgs = []*dkgr.SecretCommits{genuine}
		case "none":
			e.logf("secret commits of %d: withheld", bi)
			continue
		case "inconsistent":
			it.msgs = []*dkgr.SecretCommits{e.mkSC(b, e.shifted(b, nil), b.sid[0])}
		case "partial":
			// consistent with the shares of t-1 honest participants only
			var keep []int
			for k := 0; k < len(o.honest) && len(keep) < e.t-1; k++ {
				keep = append(keep, o.honest[(k+a.Arg)%len(o.honest)])
			}
			it.msgs = []*dkgr.SecretCommits{e.mkSC(b, e.shifted(b, keep), b.sid[0])}
			e.logf("secret commits of %d agree only with the shares of %v", bi, keep)
		case "wrong-sid":
			it.msgs = []*dkgr.SecretCommits{e.mkSC(b, b.commits[0], e.rng.Bytes(len(b.sid[0])))}
		case "bad-signature":
			// inconsistent commitments under an invalid signature: must be ignored (the genuine ones follow)
			bad := e.mkSC(b, e.shifted(b, nil), b.sid[0])
			bad.Signature[len(bad.Signature)/2] ^= 0x20
			it.msgs = []*dkgr.SecretCommits{bad, genuine}
		case "long":
			cs := append(c11rPts(b.suite, b.commits[0]), b.suite.Point().Pick(e.rng.Stream()))
			it.msgs = []*dkgr.SecretCommits{e.mkSC(b, cs, b.sid[0])}
		case "long-null":
			// one more coefficient that is the identity: every share still verifies
			cs := append(c11rPts(b.suite, b.commits[0]), b.suite.Point().Null())
			it.msgs = []*dkgr.SecretCommits{e.mkSC(b, cs, b.sid[0])}
		case "short":
			it.msgs = []*dkgr.SecretCommits{e.mkSC(b, b.commits[0][:e.t-1], b.sid[0])}
		case "equivocate":
			it.msgs = []*dkgr.SecretCommits{genuine, e.mkSC(b, e.shifted(b, nil), b.sid[0])}
			it.equiv = true
		case "duplicate":
			it.msgs = []*dkgr.SecretCommits{genuine, genuine}
		case "fit-dealt-shares":
			// the commitments of the polynomial through the shares the first t honest participants really hold
			var sh []*share.PriShare
			for _, h := range o.honest {
				if len(sh) == e.t || o.noVerifier[bi][h] {
					continue
				}
				pd, _ := b.dealer[b.used[h]].PlaintextDeal(h)
				v := c11rSc(e.hs, pd.SecShare.V)
				if o.dealKind[bi][h] == "bad-share" {
					v = e.hs.Scalar().Add(v, e.hs.Scalar().One())
				}
				sh = append(sh, &share.PriShare{I: uint32(h), V: v})
			}
			if len(sh) < e.t {
				it.msgs = []*dkgr.SecretCommits{genuine}
				break
			}
			p, err := share.RecoverPriPoly(e.hs, sh, uint32(e.t), uint32(e.n))
			if err != nil {
				panic("harness: RecoverPriPoly: " + err.Error())
			}
			_, cs := p.Commit(nil).Info()
			it.msgs = []*dkgr.SecretCommits{e.mkSC(b, cs, b.sid[0])}
		case "alt-poly-equivocate":
			if b.dealer[1] == nil {
				it.msgs = []*dkgr.SecretCommits{genuine}
				break
			}
			it.msgs = []*dkgr.SecretCommits{genuine, e.mkSC(b, b.commits[1], b.sid[1])}
			it.equiv = true
		default:
			panic("harness: unknown secret-commits fault " + kind)
		}
		e.logf("secret commits of %d: %s", bi, map[bool]string{true: "genuine", false: kind}[kind == ""])
		out = append(out, it)
	}
	return out
}

type c11rCCItem struct {
	from int
	msg  *dkgr.ComplaintCommits
	byz  bool
}
type c11rRCItem struct {
	from int
	msg  *dkgr.ReconstructCommits
	byz  bool
}

func (e *c11rEngine) phaseSecretCommits() {
	o := e.o
	var pool []c11rSCItem
	for _, x := range o.honest {
		if !o.certT[x] {
			continue
		}
		var sc *dkgr.SecretCommits
		var err error
		e.try("SecretCommits", func() { sc, err = e.gens[x].SecretCommits() })
		if err != nil || sc == nil {
			o.scErr[x] = c11rErrS(err)
			e.logf("node %d SecretCommits: error %q", x, c11rErrS(err))
			continue
		}
		o.scHonest[x] = c11rPts(e.hs, sc.Commitments)
		pool = append(pool, c11rSCItem{from: x, msgs: []*dkgr.SecretCommits{sc}})
	}
	pool = append(pool, e.byzSecretCommits()...)
	var ccs []c11rCCItem
	for _, x := range o.honest {
		for _, k := range e.order("sc", x, len(pool)) {
			it := pool[k]
			if it.from == x {
				continue
			}
			msgs := it.msgs
			if it.equiv && e.coin("sc", x, k) {
				msgs = []*dkgr.SecretCommits{msgs[1], msgs[0]}
			}
			for _, m := range msgs {
				reps := 1
				if e.s.Dup {
					reps = 2
				}
				for rep := 0; rep < reps; rep++ {
					var cc *dkgr.ComplaintCommits
					var err error
					e.try("ProcessSecretCommits", func() { cc, err = e.gens[x].ProcessSecretCommits(c11rCopySC(e.suites[x], m)) })
					switch {
					case err != nil:
						o.count["sc.rejected"]++
					case cc != nil:
						o.count["sc.complaint"]++
					default:
						o.count["sc.accepted"]++
					}
					if rep == 0 && !it.byz && (err != nil || cc != nil) && c11rContains(o.qualT[x], it.from) {
						o.honestMis = append(o.honestMis, fmt.Sprintf("ProcessSecretCommits/honest-commitments-not-accepted|node %d, commitments of %d: err=%v complaint=%v", x, it.from, err, cc != nil))
					}
					if (it.byz || err != nil || cc != nil) && (rep == 0 || err == nil) {
						e.logf("secret commits of %d at node %d%s: err=%q complaint=%v", it.from, x, c11rRep(rep), c11rErrS(err), cc != nil)
					}
					if cc != nil && rep == 0 {
						ccs = append(ccs, c11rCCItem{from: x, msg: cc})
					}
				}
			}
		}
	}
	// Byzantine complaint-commits
	for _, bi := range e.s.Byz {
		b := e.byz[bi]
		if b.absent {
			continue
		}
		for _, a := range e.s.atomsOf(bi, "cc/") {
			for _, d := range o.honest {
				if !a.hits(d) || b.got[d] == nil {
					continue
				}
				kind := strings.TrimPrefix(a.Kind, "cc/")
				cc := &dkgr.ComplaintCommits{Index: uint32(bi), DealerIndex: uint32(d), Deal: c11rCopyVDeal(b.suite, b.got[d])}
				switch kind {
				case "false-real-deal":
				case "bad-deal":
					cc.Deal.SecShare.V = b.suite.Scalar().Add(cc.Deal.SecShare.V, b.suite.Scalar().One())
				case "foreign-commitments":
					// a deal that is self-consistent under the forger's own Pedersen commitments, labelled with the honest dealer's session id
					if b.dealer[1] == nil {
						continue
					}
					pd, _ := b.dealer[1].PlaintextDeal(bi)
					cc.Deal = c11rCopyVDeal(b.suite, pd)
					cc.Deal.SessionID = c11rB(b.got[d].SessionID)
				case "bad-signature":
				case "as-honest":
					cc.Index = uint32(o.honest[(a.Arg+1)%len(o.honest)])
				default:
					panic("harness: unknown complaint-commits fault " + kind)
				}
				cc.Signature = e.sign(b, cc.Hash(b.suite))
				if kind == "bad-signature" {
					cc.Signature[len(cc.Signature)/2] ^= 0x08
				}
				e.logf("participant %d: complaint-commits (%s) against honest dealer %d", bi, kind, d)
				ccs = append(ccs, c11rCCItem{from: bi, msg: cc, byz: true})
			}
		}
	}
	var rcs []c11rRCItem
	for _, x := range o.honest {
		for _, k := range e.order("cc", x, len(ccs)) {
			it := ccs[k]
			if it.from == x {
				continue
			}
			reps := 1
			if e.s.Dup {
				reps = 2
			}
			for rep := 0; rep < reps; rep++ {
				var rc *dkgr.ReconstructCommits
				var err error
				e.try("ProcessComplaintCommits", func() { rc, err = e.gens[x].ProcessComplaintCommits(c11rCopyCC(e.suites[x], it.msg)) })
				if err != nil {
					o.count["cc.rejected"]++
				} else {
					o.count["cc.accepted"]++
				}
				if rep == 0 || err == nil {
					e.logf("complaint-commits of %d against dealer %d at node %d%s: err=%q reconstruct=%v", it.msg.Index, it.msg.DealerIndex, x, c11rRep(rep), c11rErrS(err), rc != nil)
				}
				if rc != nil && rep == 0 {
					o.reconDeal[int(rc.DealerIndex)] = true
					rcs = append(rcs, c11rRCItem{from: x, msg: rc})
				}
			}
		}
	}
	// Byzantine reconstruct-commits: by default the participant reveals the share it really holds
	var under []int
	for d := range o.reconDeal {
		under = append(under, d)
	}
	sort.Ints(under)
	for _, bi := range e.s.Byz {
		b := e.byz[bi]
		if b.absent {
			continue
		}
		targets := append([]int(nil), under...)
		if as := e.s.atomsOf(bi, "rc/unsolicited"); len(as) > 0 {
			for _, d := range o.honest {
				if as[0].hits(d) && !c11rContains(targets, d) {
					targets = append(targets, d)
				}
			}
		}
		for _, d := range targets {
			var sh *share.PriShare
			var sid []byte
			if o.isByz[d] {
				if e.byz[d].absent {
					continue
				}
				sh, sid = c11rShare(b.suite, e.byz[d].poly[0].Eval(uint32(bi))), e.byz[d].sid[0]
			} else {
				if b.got[d] == nil {
					continue
				}
				sh, sid = c11rShare(b.suite, b.got[d].SecShare), b.got[d].SessionID
			}
			kind := ""
			for _, a := range e.s.atomsOf(bi, "rc/") {
				if a.Kind != "rc/unsolicited" {
					kind = strings.TrimPrefix(a.Kind, "rc/")
					break
				}
			}
			rc := &dkgr.ReconstructCommits{SessionID: c11rB(sid), Index: uint32(bi), DealerIndex: uint32(d), Share: sh}
			switch kind {
			case "":
			case "none":
				continue
			case "falsified":
				sh.V = b.suite.Scalar().Add(sh.V, b.suite.Scalar().One())
				o.rcFalse[d] = true
			case "wrong-index-share":
				sh.I = uint32(o.honest[0])
				o.rcFalse[d] = true
			case "wrong-sid":
				rc.SessionID = e.rng.Bytes(len(sid))
			case "bad-signature":
				sh.V = b.suite.Scalar().Add(sh.V, b.suite.Scalar().One()) // falsified share under an invalid signature: must be ignored
			default:
				panic("harness: unknown reconstruct-commits fault " + kind)
			}
			rc.Signature = e.sign(b, rc.Hash(b.suite))
			if kind == "bad-signature" {
				rc.Signature[len(rc.Signature)/2] ^= 0x02
			}
			e.logf("participant %d: reconstruct-commits for dealer %d (%s)", bi, d, map[bool]string{true: "its real share", false: kind}[kind == ""])
			rcs = append(rcs, c11rRCItem{from: bi, msg: rc, byz: true})
		}
	}
	for _, x := range o.honest {
		for _, k := range e.order("rc", x, len(rcs)) {
			it := rcs[k]
			if it.from == x {
				continue
			}
			reps := 1
			if e.s.Dup {
				reps = 2
			}
			for rep := 0; rep < reps; rep++ {
				var err error
				e.try("ProcessReconstructCommits", func() { err = e.gens[x].ProcessReconstructCommits(c11rCopyRC(e.suites[x], it.msg)) })
				if err != nil {
					o.count["rc.rejected"]++
				} else {
					o.count["rc.accepted"]++
				}
				if (it.byz || err != nil) && rep == 0 {
					e.logf("reconstruct-commits of %d for dealer %d at node %d: err=%q", it.from, it.msg.DealerIndex, x, c11rErrS(err))
				}
			}
		}
	}
}

func (e *c11rEngine) phaseFinish() {
	o := e.o
	for _, x := range o.honest {
		o.qualF[x] = e.qual(x)
		e.try("Finished", func() { o.finished[x] = e.gens[x].Finished() })
		var dks *dkgr.DistKeyShare
		var err error
		ok := e.try("DistKeyShare", func() { dks, err = e.gens[x].DistKeyShare() })
		if ok && err == nil && dks != nil && dks.Share != nil && len(dks.Commits) > 0 {
			// private copy, so that later calls cannot change what was observed
			o.dks[x] = &dkgr.DistKeyShare{Commits: c11rPts(e.hs, dks.Commits), Share: c11rShare(e.hs, dks.Share)}
			pb, _ := dks.Commits[0].MarshalBinary()
			e.logf("end: node %d QUAL=%v finished=%v key=%x..", x, o.qualF[x], o.finished[x], pb[:6])
		} else {
			o.dksErr[x] = c11rErrS(err)
			if ok && err == nil {
				o.dksErr[x] = "nil or empty result without error"
			}
			e.logf("end: node %d QUAL=%v finished=%v DistKeyShare error %q", x, o.qualF[x], o.finished[x], o.dksErr[x])
		}
	}
}
