package main

import (
	"bytes"
	"fmt"
	"math/big"
	"strings"

	"go.dedis.ch/kyber/v4"

	"verif/internal/gen"
	"verif/internal/groups"
	"verif/internal/mon"
	"verif/internal/ref"
)

func init() { register("C04", c04) }

func c04(r *mon.R) {
	r.Assume("membership re-checked with math/big curve equations (Ed25519, P-256, BN G1, BN twist over F_p^2, BLS12-381 G1 incl. subgroup) and with q*P = O through the group's own arithmetic; canonical re-encodings of accepted BLS12-381 points are cross-decoded by the other two back-ends")
	switch *flagMode {
	case "parsers":
		r.SetRule("composite parsers: valid messages mutated (random bytes, truncation, bit flip, extension, byte splice, all-ff) handed to every Verify/Decrypt/Unmarshal entry point; judgement = returns (error or nil) without panic. distinct = (entry point, mutation class, input hash); non-trivial = input differs from the valid message")
		c04Parsers(r)
	case "decoders-lite":
		r.SetRule("decoder workload repeated under a -race build (checkptr instrumentation of unsafe code in the back-ends)")
		c04Decoders(r, true)
	default:
		r.SetRule("point and scalar decoders of all 20 groups on hostile byte strings: lengths 0..2*size+40 (random, all-00, all-ff), every format/flag byte, valid encodings with bit flips / splices / truncation / extension, coordinates >= p, off-curve and wrong-subgroup points built by the reference model; accepted values are used (String, Equal, Clone, Add, Mul, Neg, Sub, Data, re-encode/re-decode) and re-checked for membership by an independent model. distinct = (group, kind, class, input hash); non-trivial = input is not an encoding the library produced")
		c04Decoders(r, false)
	}
}

// ---------------------------------------------------------------- decoders

type c04in struct {
	class string
	b     []byte
}

var c04flagBytes = []byte{0x00, 0x01, 0x02, 0x03, 0x04, 0x05, 0x06, 0x07, 0x20, 0x40, 0x60, 0x80, 0xa0, 0xc0, 0xe0, 0xff}

func c04Inputs(g *groups.G, rng *gen.Rng, lite bool) []c04in {
	var out []c04in
	add := func(class string, b []byte) { out = append(out, c04in{class, append([]byte(nil), b...)}) }
	size := g.Grp.PointLen()
	ssize := g.Grp.ScalarLen()
	maxLen := 2*size + 40
	step := 1
	if size > 200 || lite {
		step = 7
	}
	for l := 0; l <= maxLen; l += step {
		add("len/random", rng.Bytes(l))
		add("len/zero", make([]byte, l))
		add("len/ff", bytes.Repeat([]byte{0xff}, l))
	}
	for _, l := range []int{size, ssize, size - 1, size + 1, 2 * size, 2*size + 1, size / 2} {
		if l < 1 {
			continue
		}
		for _, fb := range c04flagBytes {
			b := rng.Bytes(l)
			b[0] = fb
			add("flag/random-body", b)
			z := make([]byte, l)
			z[0] = fb
			add("flag/zero-body", z)
			z2 := make([]byte, l)
			z2[0] = fb
			z2[l-1] = 1
			add("flag/one-body", z2)
		}
	}
	// valid encodings and mutations of them
	B := g.Gen()
	valid := [][]byte{groups.Enc(g.Point().Null()), groups.Enc(B), groups.Enc(g.Point().Neg(B))}
	for i := 0; i < 3; i++ {
		valid = append(valid, groups.Enc(g.Point().Mul(g.ScalarFromBig(rng.Big(g.Q)), B)))
	}
	nflip := 64
	if !lite && (g.Kind != "GT") {
		nflip = 8 * size // all single-bit flips of the first valid encodings for small encodings
		if nflip > 1100 {
			nflip = 1100
		}
	}
	for vi, v := range valid {
		add("valid", v)
		n := nflip
		if vi >= 2 {
			n = 48
		}
		for k := 0; k < n; k++ {
			bit := k
			if n < 8*len(v) {
				bit = rng.IntN(8 * len(v))
			}
			if bit < 8*len(v) {
				add("valid/bitflip", gen.FlipBit(v, bit))
			}
		}
		for k := 0; k < 12; k++ {
			m := append([]byte(nil), v...)
			for j := 0; j < 1+rng.IntN(4); j++ {
				m[rng.IntN(len(m))] = byte(rng.IntN(256))
			}
			add("valid/splice", m)
			add("valid/truncate", v[:rng.IntN(len(v))])
			add("valid/extend", append(append([]byte(nil), v...), rng.Bytes(1+rng.IntN(40))...))
			fb := append([]byte(nil), v...)
			fb[0] = gen.Pick(rng, c04flagBytes)
			add("valid/flagbyte", fb)
			fb2 := append([]byte(nil), v...)
			fb2[0] ^= byte(0x20 << uint(rng.IntN(3)))
			add("valid/flagbit", fb2)
		}
	}
	out = append(out, c04Structured(g, rng)...)
	return out
}

func beBytes(x *big.Int, n int) []byte {
	b := make([]byte, n)
	new(big.Int).Mod(x, new(big.Int).Lsh(big.NewInt(1), uint(8*n))).FillBytes(b)
	return b
}

// zcash-compressed BLS12-381 G1 encoding of an affine reference point.
func c04BlsG1Compress(p *ref.WPoint) []byte {
	b := make([]byte, 48)
	if p.Inf {
		b[0] = 0xc0
		return b
	}
	p.X.FillBytes(b)
	b[0] |= 0x80
	negY := new(big.Int).Sub(ref.BLS12381G1.P, p.Y)
	if p.Y.Cmp(negY) > 0 {
		b[0] |= 0x20
	}
	return b
}

func c04BlsG1Decompress(b []byte) (pt *ref.WPoint, ok bool, why string) {
	if len(b) != 48 {
		return nil, false, "length"
	}
	if b[0]&0x80 == 0 {
		return nil, false, "uncompressed flag"
	}
	if b[0]&0x40 != 0 {
		rest := append([]byte{b[0] & 0x3f}, b[1:]...)
		for _, v := range rest {
			if v != 0 {
				return nil, false, "infinity with non-zero body"
			}
		}
		return &ref.WPoint{Inf: true}, true, ""
	}
	c := append([]byte(nil), b...)
	sign := c[0]&0x20 != 0
	c[0] &= 0x1f
	x := new(big.Int).SetBytes(c)
	if x.Cmp(ref.BLS12381G1.P) >= 0 {
		return nil, false, "x >= p"
	}
	p, ok := ref.BLS12381G1.LiftX(x, false)
	if !ok {
		return nil, false, "not on curve"
	}
	negY := new(big.Int).Sub(ref.BLS12381G1.P, p.Y)
	if (p.Y.Cmp(negY) > 0) != sign {
		p.Y = negY
	}
	return p, true, ""
}

// c04Structured builds format-aware hostile inputs.
func c04Structured(g *groups.G, rng *gen.Rng) []c04in {
	var out []c04in
	add := func(class string, b []byte) { out = append(out, c04in{class, b}) }
	name := g.Name
	switch {
	case name == "ed25519" || name == "ed25519-vt" || name == "edvartime":
		// non-canonical y (y+p for y<19), x=0 with sign bit, small-order points, y with no x
		for y := int64(0); y < 19; y++ {
			v := new(big.Int).Add(ref.EdP, big.NewInt(y))
			b := beBytes(v, 32)
			le := make([]byte, 32)
			for i := range b {
				le[31-i] = b[i]
			}
			add("ed/noncanonical-y+p", le)
			le2 := append([]byte(nil), le...)
			le2[31] |= 0x80
			add("ed/noncanonical-y+p-sign", le2)
		}
		one := make([]byte, 32)
		one[0] = 1
		one[31] = 0x80
		add("ed/identity-with-sign-bit", one)
		for i := 0; i < 60; i++ {
			b := rng.Bytes(32)
			if _, ok, _ := ref.EdDecode(b); !ok {
				add("ed/off-curve-y", b)
			} else {
				add("ed/on-curve-random", b)
			}
		}
	case name == "p256":
		c := ref.P256
		for i := 0; i < 40; i++ {
			x := rng.Big(c.P)
			if p, ok := c.LiftX(x, rng.IntN(2) == 1); ok {
				enc := append([]byte{4}, c.Bytes(p)...)
				add("p256/valid-ref-point", enc)
				y1 := new(big.Int).Add(p.Y, big.NewInt(1))
				add("p256/off-curve-y+1", append([]byte{4}, append(beBytes(p.X, 32), beBytes(y1, 32)...)...))
				add("p256/compressed-form", append([]byte{2 + byte(p.Y.Bit(0))}, beBytes(p.X, 32)...))
				if p.X.BitLen() <= 223 {
					add("p256/x+p", append([]byte{4}, append(beBytes(new(big.Int).Add(p.X, c.P), 32), beBytes(p.Y, 32)...)...))
				}
			}
		}
		add("p256/x=5,y=7", append([]byte{4}, append(beBytes(big.NewInt(5), 32), beBytes(big.NewInt(7), 32)...)...))
		add("p256/x=0,y=1", append([]byte{4}, append(beBytes(big.NewInt(0), 32), beBytes(big.NewInt(1), 32)...)...))
		add("p256/x=p,y=p", append([]byte{4}, append(beBytes(c.P, 32), beBytes(c.P, 32)...)...))
		add("p256/x=ff,y=ff", append([]byte{4}, bytes.Repeat([]byte{0xff}, 64)...))
	case name == "qr512" || name == "residue-r6":
		P, Q := groups.ResiduePQ(g)
		n := g.Grp.PointLen()
		add("qr/zero", make([]byte, n))
		add("qr/P", beBytes(P, n))
		add("qr/P-1", beBytes(new(big.Int).Sub(P, big.NewInt(1)), n))
		add("qr/P+1", beBytes(new(big.Int).Add(P, big.NewInt(1)), n))
		for i := 0; i < 40; i++ {
			x := rng.Big(P)
			cls := "qr/non-residue"
			if new(big.Int).Exp(x, Q, P).Cmp(big.NewInt(1)) == 0 {
				cls = "qr/residue"
			}
			add(cls, beBytes(x, n))
			add("qr/residue+P-overlong", append([]byte{1}, beBytes(new(big.Int).Mul(x, x), n)...))
			// a square: always a quadratic residue, in the order-Q subgroup only when the cofactor is 2
			sq := new(big.Int).Exp(x, big.NewInt(2), P)
			scls := "qr/square-outside-subgroup"
			if new(big.Int).Exp(sq, Q, P).Cmp(big.NewInt(1)) == 0 {
				scls = "qr/square-in-subgroup"
			}
			add(scls, beBytes(sq, n))
		}
	case strings.HasPrefix(name, "bn256.G1") || strings.HasPrefix(name, "bn254.G1"):
		c := ref.BN256G1
		if strings.HasPrefix(name, "bn254") {
			c = ref.BN254G1
		}
		for i := 0; i < 40; i++ {
			x := rng.Big(c.P)
			if p, ok := c.LiftX(x, rng.IntN(2) == 1); ok {
				add("bn/valid-ref-point", c.Bytes(p))
				y1 := new(big.Int).Add(p.Y, big.NewInt(1))
				add("bn/off-curve-y+1", append(beBytes(p.X, 32), beBytes(y1, 32)...))
			}
		}
		gp := c.Gen()
		add("bn/gen-x+p", append(beBytes(new(big.Int).Add(gp.X, c.P), 32), beBytes(gp.Y, 32)...))
		if new(big.Int).Add(gp.Y, c.P).BitLen() <= 256 {
			add("bn/gen-y+p", append(beBytes(gp.X, 32), beBytes(new(big.Int).Add(gp.Y, c.P), 32)...))
		}
		add("bn/x=0,y=1", append(beBytes(big.NewInt(0), 32), beBytes(big.NewInt(1), 32)...))
		add("bn/x=p,y=p", append(beBytes(c.P, 32), beBytes(c.P, 32)...))
	case strings.HasSuffix(name, ".G1") && g.Suite != nil: // BLS12-381 G1
		c := ref.BLS12381G1
		for i := 0; i < 30; i++ {
			x := rng.Big(c.P)
			if p, ok := c.LiftX(x, rng.IntN(2) == 1); ok {
				if c.InSubgroup(p) {
					add("bls/g1-on-curve-in-subgroup", c04BlsG1Compress(p))
				} else {
					add("bls/g1-on-curve-wrong-subgroup", c04BlsG1Compress(p))
					// uncompressed form of the same point
					un := append(beBytes(p.X, 48), beBytes(p.Y, 48)...)
					add("bls/g1-uncompressed-wrong-subgroup", un)
				}
			} else {
				b := beBytes(x, 48)
				b[0] |= 0x80
				add("bls/g1-x-not-on-curve", b)
			}
		}
		k := rng.Big(c.N)
		p := c.Mul(k, c.Gen())
		add("bls/g1-valid-ref-point", c04BlsG1Compress(p))
		wrongSign := c04BlsG1Compress(p)
		wrongSign[0] ^= 0x20
		add("bls/g1-valid-other-sign", wrongSign)
		xp := beBytes(new(big.Int).Add(big.NewInt(0), c.P), 48)
		xp[0] |= 0x80
		add("bls/g1-x=p", xp)
		for _, fb := range []byte{0x40, 0x60, 0xc0, 0xe0, 0x00, 0x20} {
			for _, l := range []int{47, 48, 49, 95, 96, 97} {
				b := make([]byte, l)
				b[0] = fb
				add("bls/g1-infinity-flag-lengths", b)
				b2 := rng.Bytes(l)
				b2[0] = fb | (b2[0] & 0x1f)
				add("bls/g1-flag-lengths-random", b2)
			}
		}
	case strings.HasSuffix(name, ".G2") && g.Suite != nil && !strings.HasPrefix(name, "bn"): // BLS12-381 G2
		notInG2 := "8123456789abcdef0123456789abcdef0123456789abcdef0123456789abcdef0123456789abcdef0123456789abcdef0123456789abcdef0123456789abcdef0123456789abcdef0123456789abcdef0123456789abcdef0123456789abcdef"
		b := make([]byte, 96)
		fmt.Sscanf(notInG2, "%x", &b)
		add("bls/g2-on-curve-wrong-subgroup", b)
		for i := 0; i < 40; i++ {
			m := append([]byte(nil), b...)
			m[1+rng.IntN(95)] = byte(rng.IntN(256))
			add("bls/g2-vector-mutated", m)
		}
		for _, fb := range []byte{0x40, 0x60, 0xc0, 0xe0, 0x00, 0x20} {
			for _, l := range []int{95, 96, 97, 191, 192, 193} {
				z := make([]byte, l)
				z[0] = fb
				add("bls/g2-infinity-flag-lengths", z)
				b2 := rng.Bytes(l)
				b2[0] = fb | (b2[0] & 0x1f)
				add("bls/g2-flag-lengths-random", b2)
			}
		}
	case strings.HasPrefix(name, "bn256.G2") || strings.HasPrefix(name, "bn254.G2"):
		gen := groups.Enc(g.Gen())
		for i := 0; i < 4; i++ {
			m := append([]byte(nil), gen...)
			// y+1 on one coordinate
			m[32*(i+1)-1] ^= 1
			add("bn/g2-gen-coordinate-changed", m)
		}
		P := ref.BN256G1.P
		if strings.HasPrefix(name, "bn254") {
			P = ref.BN254G1.P
		}
		for i := 0; i < 4; i++ {
			c := new(big.Int).SetBytes(gen[32*i : 32*i+32])
			c.Add(c, P)
			if c.BitLen() <= 256 {
				m := append([]byte(nil), gen...)
				copy(m[32*i:], beBytes(c, 32))
				add("bn/g2-gen-coordinate+p", m)
			}
		}
		for i := 0; i < 20; i++ {
			add("bn/g2-random-coords-below-p", append(append(beBytes(rng.Big(P), 32), beBytes(rng.Big(P), 32)...), append(beBytes(rng.Big(P), 32), beBytes(rng.Big(P), 32)...)...))
		}
	}
	return out
}

// c04Member is the independent membership test on the canonical re-encoding of an accepted point.
// It returns ok=false with a reason when the model says the point is NOT a member; checked=false when no model applies.
func c04Member(g *groups.G, enc []byte, twistB map[string]ref.F2) (checked, ok bool, why string) {
	name := g.Name
	zero := true
	for _, v := range enc {
		if v != 0 {
			zero = false
		}
	}
	switch {
	case name == "ed25519" || name == "ed25519-vt" || name == "edvartime":
		p, ok, _ := ref.EdDecode(enc)
		if !ok {
			return true, false, "re-encoding has no point on the curve"
		}
		return true, ref.EdOnCurve(p), "curve equation"
	case name == "p256":
		if len(enc) != 65 || enc[0] != 4 {
			return true, false, "format"
		}
		x, y := new(big.Int).SetBytes(enc[1:33]), new(big.Int).SetBytes(enc[33:])
		if x.Sign() == 0 && y.Sign() == 0 {
			return true, true, ""
		}
		return true, ref.P256.OnCurve(x, y), "curve equation"
	case name == "qr512" || name == "residue-r6":
		P, Q := groups.ResiduePQ(g)
		v := new(big.Int).SetBytes(enc)
		if v.Sign() <= 0 || v.Cmp(P) >= 0 {
			return true, false, "range"
		}
		return true, new(big.Int).Exp(v, Q, P).Cmp(big.NewInt(1)) == 0, "v^Q != 1"
	case name == "bn256.G1" || name == "bn254.G1":
		c := ref.BN256G1
		if name == "bn254.G1" {
			c = ref.BN254G1
		}
		if zero {
			return true, true, ""
		}
		return true, c.OnCurve(new(big.Int).SetBytes(enc[:32]), new(big.Int).SetBytes(enc[32:64])), "curve equation"
	case name == "bn256.G2" || name == "bn254.G2":
		P := ref.BN256G1.P
		if name == "bn254.G2" {
			P = ref.BN254G1.P
		}
		if zero {
			return true, true, ""
		}
		// layout: x.i | x.re | y.i | y.re
		x := ref.F2{A: new(big.Int).SetBytes(enc[32:64]), B: new(big.Int).SetBytes(enc[0:32])}
		y := ref.F2{A: new(big.Int).SetBytes(enc[96:128]), B: new(big.Int).SetBytes(enc[64:96])}
		return true, ref.OnTwist(P, twistB[name], x, y), "twist equation"
	case strings.HasSuffix(name, ".G1") && g.Suite != nil:
		p, ok, why := c04BlsG1Decompress(enc)
		if !ok {
			return true, false, "re-encoding: " + why
		}
		if p.Inf {
			return true, true, ""
		}
		if !ref.BLS12381G1.OnCurve(p.X, p.Y) {
			return true, false, "curve equation"
		}
		return true, ref.BLS12381G1.InSubgroup(p), "r*P != O (reference arithmetic)"
	}
	return false, true, ""
}

func c04Decoders(r *mon.R, lite bool) {
	all := groups.All()
	// extra configuration: a residue group with cofactor 6 (membership is not implied by quadratic residuosity)
	all = append(all, groups.ResidueR6())
	gs := groups.Select(all, *flagGroups)
	// twist constants derived from the published generators
	twistB := map[string]ref.F2{}
	for _, g := range all {
		if g.Name == "bn256.G2" || g.Name == "bn254.G2" {
			enc := groups.Enc(g.Gen())
			P := ref.BN256G1.P
			if g.Name == "bn254.G2" {
				P = ref.BN254G1.P
			}
			x := ref.F2{A: new(big.Int).SetBytes(enc[32:64]), B: new(big.Int).SetBytes(enc[0:32])}
			y := ref.F2{A: new(big.Int).SetBytes(enc[96:128]), B: new(big.Int).SetBytes(enc[64:96])}
			twistB[g.Name] = ref.TwistB(P, x, y)
		}
	}
	// BLS12-381 siblings for cross-decoding
	sib := map[string][]*groups.G{}
	for _, g := range all {
		for _, kind := range []string{"G1", "G2"} {
			if g.Kind == kind && (strings.HasPrefix(g.Name, "kilic") || strings.HasPrefix(g.Name, "circl") || strings.HasPrefix(g.Name, "gnark")) {
				sib[kind] = append(sib[kind], g)
			}
		}
	}
	rounds := r.N(1, 12)
	type job struct {
		g     *groups.G
		round int
	}
	var jobs []job
	for _, g := range gs {
		for k := 0; k < rounds; k++ {
			jobs = append(jobs, job{g, k})
		}
	}
	mon.Parallel(len(jobs), func(w, ji int) {
		j := jobs[ji]
		g := j.g
		rng := gen.New(r.Seed, "C04dec"+g.Name, j.round)
		var ins []c04in
		r.Journal(w, "C04 gen-inputs %s round %d", g.Name, j.round)
		if !r.Guard("C04/"+g.Name+"/harness-input-generation", nil, func() { ins = c04Inputs(g, rng, lite) }) {
			return
		}
		B := g.Gen()
		qm1 := g.ScalarFromBig(new(big.Int).Sub(g.Q, big.NewInt(1)))
		two := g.ScalarFromBig(big.NewInt(2))
		own := map[string]bool{}
		for _, in := range ins {
			if in.class == "valid" {
				own[string(in.b)] = true
			}
		}
		for _, in := range ins {
			in := in
			hx := mon.Hex(in.b)
			desc := fmt.Sprintf("%s|%s|%x", g.Name, in.class, hashShort(in.b))
			det := map[string]any{"group": g.Name, "class": in.class, "input": hx, "len": len(in.b)}
			r.Journal(w, "C04 point %s %s %s", g.Name, in.class, hx)
			// ---- point decode
			var p kyber.Point
			var err error
			okDec := r.Guard("C04/"+g.Name+"/point/UnmarshalBinary", det, func() {
				p = g.Point()
				err = p.UnmarshalBinary(append([]byte(nil), in.b...))
			})
			r.Eval("point/"+in.class, desc, !own[string(in.b)])
			if okDec && err == nil {
				r.NoteAdd("accepted."+g.Name+"."+in.class, 1)
				var enc []byte
				used := r.Guard("C04/"+g.Name+"/point/use-after-accept", det, func() {
					_ = p.String()
					if !p.Equal(p) {
						r.Violation("C04/"+g.Name+"/point/accepted-not-equal-to-itself", "accepted point is not Equal to itself", det)
					}
					enc = groups.Enc(p)
					c := p.Clone()
					_ = g.Point().Add(p, B)
					_ = g.Point().Add(B, p)
					_ = g.Point().Mul(two, p)
					n := g.Point().Neg(p)
					_ = g.Point().Sub(p, c)
					_ = g.Point().Sub(B, p)
					if g.CanData {
						_, _ = p.Data()
					}
					// q*P = O through the group's own arithmetic
					qp := g.Point().Add(g.Point().Mul(qm1, p), p)
					if !qp.Equal(g.Point().Null()) {
						cls := "point/accepted-not-in-group(q*P!=O)"
						d := map[string]any{"group": g.Name, "class": in.class, "input": hx, "reencoded": mon.Hex(enc)}
						if c04PromisesSubgroup(g) {
							r.Violation("C04/"+g.Name+"/"+cls, "decoder accepted a point outside the prime-order group it promises to validate (q*P != O)", d)
						} else {
							r.NoteAdd("accepted-but-q*P!=O."+g.Name, 1)
						}
					}
					_ = n
					// re-encode -> decode -> Equal
					p2 := g.Point()
					if e := p2.UnmarshalBinary(enc); e != nil {
						r.Violation("C04/"+g.Name+"/point/re-encoding-rejected", "re-encoding of an accepted point does not decode", map[string]any{"group": g.Name, "class": in.class, "input": hx, "reencoded": mon.Hex(enc), "err": e.Error()})
					} else if !p2.Equal(p) || !p.Equal(p2) {
						r.Violation("C04/"+g.Name+"/point/re-decode-not-equal", "decoding the re-encoding of an accepted point yields a different point", map[string]any{"group": g.Name, "class": in.class, "input": hx, "reencoded": mon.Hex(enc)})
					}
				})
				if used && enc != nil {
					if checked, ok, why := c04Member(g, enc, twistB); checked {
						r.Eval("member/"+in.class, desc, true)
						if !ok {
							r.Violation("C04/"+g.Name+"/point/accepted-non-member/"+c04ClassRoot(in.class), "decoder accepted bytes that are not a member of the group by the independent model: "+why,
								map[string]any{"group": g.Name, "class": in.class, "input": hx, "reencoded": mon.Hex(enc), "why": why})
						}
					}
					// BLS12-381: the canonical re-encoding must be accepted by the sibling back-ends
					if ss := sib[g.Kind]; g.Suite != nil && len(ss) > 0 && !strings.HasPrefix(g.Name, "bn") && g.Kind != "GT" {
						for _, s := range ss {
							if s == g {
								continue
							}
							var e2 error
							r.Guard("C04/"+s.Name+"/point/cross-decode", det, func() { e2 = s.Point().UnmarshalBinary(enc) })
							r.Eval("cross-decode", desc+"|"+s.Name, true)
							if e2 != nil {
								r.Violation("C04/"+g.Name+"/point/accepted-but-sibling-rejects-canonical/"+s.Name, "a BLS12-381 back-end accepted bytes whose canonical re-encoding another back-end rejects",
									map[string]any{"group": g.Name, "sibling": s.Name, "class": in.class, "input": hx, "reencoded": mon.Hex(enc), "err": e2.Error()})
							}
						}
					}
				}
			}
			// ---- the same bytes into a receiver that already holds a finite value: same verdict, Equal value, usable
			r.Guard("C04/"+g.Name+"/point/UnmarshalBinary(used-receiver)", det, func() {
				q := g.Point().Add(g.Point().Mul(two, B), B)
				e2 := q.UnmarshalBinary(append([]byte(nil), in.b...))
				r.Eval("point-used-receiver/"+in.class, desc, true)
				if okDec && (e2 == nil) != (err == nil) {
					r.Violation("C04/"+g.Name+"/point/used-receiver-verdict-differs", "decoding the same bytes into a receiver that already held a value gives a different accept/reject verdict than a fresh receiver",
						map[string]any{"group": g.Name, "class": in.class, "input": hx, "fresh_err": fmt.Sprint(err), "used_err": fmt.Sprint(e2)})
				}
				if e2 == nil {
					enc2 := groups.Enc(q)
					q2 := g.Point()
					if e3 := q2.UnmarshalBinary(enc2); e3 != nil {
						r.Violation("C04/"+g.Name+"/point/used-receiver-re-encoding-rejected", "value decoded into a used receiver re-encodes to bytes the decoder rejects", map[string]any{"group": g.Name, "class": in.class, "input": hx, "reencoded": mon.Hex(enc2), "err": e3.Error()})
					}
					if okDec && err == nil && (!q.Equal(p) || !p.Equal(q)) {
						r.Violation("C04/"+g.Name+"/point/used-receiver-value-differs", "decoding the same bytes into a used receiver yields a different point than into a fresh receiver", map[string]any{"group": g.Name, "class": in.class, "input": hx})
					}
					_ = g.Point().Add(q, B)
					_ = g.Point().Mul(two, q)
				}
			})
			// ---- UnmarshalFrom on the same bytes (stream form)
			r.Guard("C04/"+g.Name+"/point/UnmarshalFrom", det, func() {
				q := g.Point()
				_, _ = q.UnmarshalFrom(bytes.NewReader(in.b))
			})
			// ---- scalar decode
			r.Journal(w, "C04 scalar %s %s %s", g.Name, in.class, hx)
			var s kyber.Scalar
			okS := r.Guard("C04/"+g.Name+"/scalar/UnmarshalBinary", det, func() {
				s = g.Scalar()
				err = s.UnmarshalBinary(append([]byte(nil), in.b...))
			})
			r.Eval("scalar/"+in.class, desc, true)
			if okS && err == nil {
				r.NoteAdd("accepted-scalar."+g.Name, 1)
				r.Guard("C04/"+g.Name+"/scalar/use-after-accept", det, func() {
					_ = s.String()
					_, _ = s.MarshalBinary()
					_ = g.Scalar().Add(s, s)
					_ = g.Scalar().Mul(s, s)
					_ = g.Scalar().Neg(s)
					_ = g.Scalar().Sub(s, g.Scalar().One())
					// also for zero and other non-invertible residues: the result is unspecified, a panic is not allowed
					_ = g.Scalar().Inv(s)
					_ = g.Scalar().Div(g.Scalar().One(), s)
					_ = g.Scalar().Div(s, s)
					_ = s.Clone()
					_ = g.Point().Mul(s, B)
				})
			}
			r.Guard("C04/"+g.Name+"/scalar/UnmarshalFrom", det, func() {
				_, _ = g.Scalar().UnmarshalFrom(bytes.NewReader(in.b))
			})
		}
		if j.round == 0 {
			r.SampleClass("dec:"+g.Name, map[string]any{"group": g.Name, "inputs": len(ins), "example_class": ins[len(ins)-1].class, "example_input": mon.Hex(ins[len(ins)-1].b)})
		}
	})
	r.Op("Point.UnmarshalBinary", "Point.UnmarshalFrom", "Scalar.UnmarshalBinary", "Scalar.UnmarshalFrom")
}

func c04ClassRoot(c string) string {
	if i := strings.IndexByte(c, '/'); i >= 0 {
		return c[:i]
	}
	return c
}

// c04PromisesSubgroup: groups whose decoder promises prime-order-subgroup membership.
func c04PromisesSubgroup(g *groups.G) bool {
	switch {
	case g.Kind == "GT":
		return false
	case g.Name == "qr512" || g.Name == "residue-r6" || g.Name == "p256" || g.Name == "bn256.G1" || g.Name == "bn254.G1":
		return true // prime-order curves / residue group: on-curve == in group
	case g.Name == "bn254.G2":
		return true
	case g.Name == "bn256.G2":
		return false // property promises "on the curve" only
	case strings.HasPrefix(g.Name, "ed"):
		return false // cofactor 8: on the curve is what is promised
	}
	return true // BLS12-381 G1/G2
}

func hashShort(b []byte) uint64 {
	var h uint64 = 1469598103934665603
	for _, c := range b {
		h ^= uint64(c)
		h *= 1099511628211
	}
	return h
}
