package main

import (
	"fmt"
	"math"
	"math/big"

	"go.dedis.ch/kyber/v4"

	"verif/internal/gen"
	"verif/internal/groups"
)

// ---------------------------------------------------------------------------
// Value specifications.
//
// A spec describes how to build a value, not the value itself: mk() builds a
// brand-new object through the public API every time it is called and uses
// nothing but immutable captured data (seed bytes, big.Ints, other specs), so
// that the oracle can obtain as many independent, never-encoded twins of the
// value as it needs without Clone and without encode/decode.
// ---------------------------------------------------------------------------

// c03P is the recipe of one point.
type c03P struct {
	class string             // input class (identity, base, multiple, chain, mulout, opaque, opaque-nn, copy, lz)
	route string             // human-readable construction
	mk    func() kyber.Point // deterministic constructor, fresh objects only
	k     []*big.Int         // discrete-log shadow over the generators of the builder (nil = unknown)
	triv  bool               // a constant made directly on a fresh receiver (Null(), Base())
}

// c03S is the recipe of one scalar.
type c03S struct {
	class string
	route string
	mk    func() kyber.Scalar
	v     *big.Int // residue shadow (nil = unknown)
	triv  bool
}

// c03B builds specs for one group and one job.
type c03B struct {
	g    *groups.G
	rng  *gen.Rng
	edge []*big.Int
	gens []c03P // gens[0] = canonical generator, others opaque (unknown discrete log)
}

func c03Short(x *big.Int) string {
	s := x.Text(16)
	if len(s) > 20 {
		return fmt.Sprintf("%s..%s[%db]", s[:6], s[len(s)-6:], x.BitLen())
	}
	return s
}

func (b *c03B) m() int { return len(b.gens) }

func (b *c03B) unit(i int) []*big.Int {
	z := make([]*big.Int, b.m())
	for j := range z {
		z[j] = new(big.Int)
	}
	z[i].SetInt64(1)
	return z
}

func (b *c03B) zeroK() []*big.Int {
	z := make([]*big.Int, b.m())
	for j := range z {
		z[j] = new(big.Int)
	}
	return z
}

func c03KIsZero(k []*big.Int) bool {
	for _, x := range k {
		if x.Sign() != 0 {
			return false
		}
	}
	return true
}

func c03KEqual(a, b []*big.Int) bool {
	for i := range a {
		if a[i].Cmp(b[i]) != 0 {
			return false
		}
	}
	return true
}

func (b *c03B) lin(x, y []*big.Int, cx, cy int64) []*big.Int {
	if x == nil || y == nil {
		return nil
	}
	z := make([]*big.Int, len(x))
	for i := range z {
		t := new(big.Int).Mul(x[i], big.NewInt(cx))
		u := new(big.Int).Mul(y[i], big.NewInt(cy))
		z[i] = t.Add(t, u).Mod(t, b.g.Q)
	}
	return z
}

func (b *c03B) scale(x []*big.Int, s *big.Int) []*big.Int {
	if x == nil {
		return nil
	}
	z := make([]*big.Int, len(x))
	for i := range z {
		z[i] = new(big.Int).Mul(x[i], s)
		z[i].Mod(z[i], b.g.Q)
	}
	return z
}

// c03NewB creates the builder; nOpaque opaque generators are drawn from the
// routes the group supports (Pick, Embed, Hash, pairing output).
func c03NewB(g *groups.G, rng *gen.Rng, nOpaque int) *c03B {
	b := &c03B{g: g, rng: rng, edge: gen.Edge(g.Q)}
	b.gens = []c03P{{class: "base", route: "Gen", mk: func() kyber.Point { return g.Gen() }, triv: true}}
	var ops []c03P
	for i := 0; i < nOpaque; i++ {
		if o, ok := b.opaque(); ok {
			ops = append(ops, o)
		}
	}
	b.gens = append(b.gens, ops...)
	for i := range b.gens {
		b.gens[i].k = b.unit(i)
	}
	return b
}

// opaque draws a fresh opaque point recipe (shadow unknown).
func (b *c03B) opaque() (c03P, bool) {
	g, rng := b.g, b.rng
	var routes []string
	if g.CanPick {
		routes = append(routes, "Pick")
	}
	if g.CanEmbed {
		routes = append(routes, "Embed")
	}
	if g.CanHash {
		routes = append(routes, "Hash")
	}
	if g.Kind == "GT" {
		routes = append(routes, "Pair", "Pair")
	}
	if len(routes) == 0 {
		return c03P{}, false
	}
	switch gen.Pick(rng, routes) {
	case "Pick":
		seed := string(rng.Bytes(16))
		return c03P{class: "opaque", route: fmt.Sprintf("Pick(%x)", seed), mk: func() kyber.Point { return g.Point().Pick(groups.Stream(seed)) }}, true
	case "Embed":
		seed := string(rng.Bytes(16))
		l := g.Point().EmbedLen()
		n := rng.IntN(l + 1)
		data := rng.Bytes(n)
		switch rng.IntN(6) {
		case 0:
			for i := range data {
				data[i] = 0
			}
		case 1:
			for i := range data {
				data[i] = 0xff
			}
		}
		return c03P{class: "opaque", route: fmt.Sprintf("Embed(%x;%x)", data, seed), mk: func() kyber.Point {
			return g.Point().Embed(append([]byte(nil), data...), groups.Stream(seed))
		}}, true
	case "Hash":
		msg := rng.Bytes(rng.IntN(40))
		return c03P{class: "opaque", route: fmt.Sprintf("Hash(%x)", msg), mk: func() kyber.Point {
			return g.Point().(groups.Hasher).Hash(append([]byte(nil), msg...))
		}}, true
	default: // Pair
		s := g.Suite.S
		a := rng.EdgeOrRandom(gen.Edge(g.Q), g.Q, 40)
		c := rng.EdgeOrRandom(gen.Edge(g.Q), g.Q, 40)
		if a.Sign() == 0 {
			a.SetInt64(3)
		}
		if c.Sign() == 0 {
			c.SetInt64(5)
		}
		nn := rng.IntN(2) == 0
		route := fmt.Sprintf("Pair(%s*G1,%s*G2)", c03Short(a), c03Short(c))
		if nn {
			route = fmt.Sprintf("Pair(%s*G1+G1-G1,%s*G2+G2-G2)", c03Short(a), c03Short(c))
		}
		return c03P{class: "opaque", route: route, mk: func() kyber.Point {
			g1, g2 := s.G1(), s.G2()
			sa := c03ScalarOf(g1, a)
			sc := c03ScalarOf(g2, c)
			p1 := g1.Point().Mul(sa, g1.Point().Base())
			p2 := g2.Point().Mul(sc, g2.Point().Base())
			if nn {
				p1 = g1.Point().Sub(g1.Point().Add(p1, g1.Point().Base()), g1.Point().Base())
				p2 = g2.Point().Sub(g2.Point().Add(p2, g2.Point().Base()), g2.Point().Base())
			}
			return s.Pair(p1, p2)
		}}, true
	}
}

// c03ScalarOf builds a scalar of any group from a non-negative integer < q.
func c03ScalarOf(grp kyber.Group, x *big.Int) kyber.Scalar {
	s := grp.Scalar()
	if x.Sign() == 0 {
		return s.Zero()
	}
	return s.SetBytes(c03IntBytes(x, s.ByteOrder(), 0))
}

// c03IntBytes serialises x in the given byte order, padded to at least n bytes.
func c03IntBytes(x *big.Int, bo kyber.ByteOrder, n int) []byte {
	be := x.Bytes()
	if len(be) < n {
		p := make([]byte, n)
		copy(p[n-len(be):], be)
		be = p
	}
	if bo == kyber.LittleEndian {
		for i, j := 0, len(be)-1; i < j; i, j = i+1, j-1 {
			be[i], be[j] = be[j], be[i]
		}
	}
	return be
}

func (b *c03B) sc(x *big.Int) kyber.Scalar { return b.g.ScalarFromBig(x) }

// ---- point combinators (receivers are always fresh) -----------------------

func (b *c03B) pNull() c03P {
	g := b.g
	return c03P{class: "identity", route: "Null", mk: func() kyber.Point { return g.Point().Null() }, k: b.zeroK(), triv: true}
}

func (b *c03B) pAdd(x, y c03P) c03P {
	g := b.g
	return c03P{class: "chain", route: "Add(" + x.route + "," + y.route + ")", k: b.lin(x.k, y.k, 1, 1),
		mk: func() kyber.Point { return g.Point().Add(x.mk(), y.mk()) }}
}

func (b *c03B) pSub(x, y c03P) c03P {
	g := b.g
	return c03P{class: "chain", route: "Sub(" + x.route + "," + y.route + ")", k: b.lin(x.k, y.k, 1, -1),
		mk: func() kyber.Point { return g.Point().Sub(x.mk(), y.mk()) }}
}

func (b *c03B) pNeg(x c03P) c03P {
	g := b.g
	var k []*big.Int
	if x.k != nil {
		k = b.lin(x.k, x.k, -1, 0)
	}
	return c03P{class: "chain", route: "Neg(" + x.route + ")", k: k, mk: func() kyber.Point { return g.Point().Neg(x.mk()) }}
}

// pDbl is Add(P,P) with the very same object as both operands.
func (b *c03B) pDbl(x c03P) c03P {
	g := b.g
	var k []*big.Int
	if x.k != nil {
		k = b.lin(x.k, x.k, 2, 0)
	}
	return c03P{class: "chain", route: "Dbl(" + x.route + ")", k: k, mk: func() kyber.Point { p := x.mk(); return g.Point().Add(p, p) }}
}

// pSubSelf is Sub(P,P) with the very same object as both operands.
func (b *c03B) pSubSelf(x c03P) c03P {
	g := b.g
	return c03P{class: "identity", route: "Sub(=" + x.route + ",=)", k: b.zeroK(), mk: func() kyber.Point { p := x.mk(); return g.Point().Sub(p, p) }}
}

func (b *c03B) pMul(s *big.Int, x c03P) c03P {
	g := b.g
	s = new(big.Int).Mod(s, g.Q)
	return c03P{class: "mulout", route: "Mul(" + c03Short(s) + "," + x.route + ")", k: b.scale(x.k, s),
		mk: func() kyber.Point { return g.Point().Mul(g.ScalarFromBig(s), x.mk()) }}
}

// pMulBase is Mul(s,nil) where supported, Mul(s,Gen) otherwise.
func (b *c03B) pMulBase(s *big.Int) c03P {
	g := b.g
	s = new(big.Int).Mod(s, g.Q)
	if !g.CanMulNil {
		p := b.pMul(s, b.gens[0])
		p.class = "multiple"
		return p
	}
	k := b.zeroK()
	k[0].Set(s)
	return c03P{class: "multiple", route: "Mul(" + c03Short(s) + ",nil)", k: k,
		mk: func() kyber.Point { return g.Point().Mul(g.ScalarFromBig(s), nil) }}
}

func (b *c03B) pSet(x c03P) c03P {
	g := b.g
	return c03P{class: "copy", route: "Set(" + x.route + ")", k: x.k, mk: func() kyber.Point { return g.Point().Set(x.mk()) }}
}

func (b *c03B) pClone(x c03P) c03P {
	return c03P{class: "copy", route: "Clone(" + x.route + ")", k: x.k, mk: func() kyber.Point { return x.mk().Clone() }}
}

// pDecoded is the value obtained by decoding the library's own encoding.
func (b *c03B) pDecoded(x c03P) c03P {
	g := b.g
	return c03P{class: "copy", route: "Decode(Encode(" + x.route + "))", k: x.k, mk: func() kyber.Point {
		e := groups.Enc(x.mk())
		p := g.Point()
		if err := p.UnmarshalBinary(e); err != nil {
			panic(fmt.Sprintf("decoding own encoding %x failed: %v", e, err))
		}
		return p
	}}
}

func (b *c03B) withClass(x c03P, class string) c03P { x.class = class; return x }

func (b *c03B) edgeScalar(pEdge int) *big.Int { return b.rng.EdgeOrRandom(b.edge, b.g.Q, pEdge) }

func (b *c03B) nonzeroScalar(pEdge int) *big.Int {
	for {
		s := b.edgeScalar(pEdge)
		if s.Sign() != 0 {
			return s
		}
	}
}

func (b *c03B) anyGen() c03P { return b.gens[b.rng.IntN(len(b.gens))] }

// pChain is a random chain of group operations (non-normalised internal form).
func (b *c03B) pChain() c03P {
	rng := b.rng
	var acc c03P
	switch rng.IntN(4) {
	case 0:
		acc = b.pMulBase(b.edgeScalar(100))
	case 1:
		acc = b.pMul(b.edgeScalar(100), b.anyGen())
	default:
		acc = b.anyGen()
	}
	n := 1 + rng.IntN(7)
	for i := 0; i < n; i++ {
		switch rng.IntN(9) {
		case 0, 1:
			acc = b.pAdd(acc, b.anyGen())
		case 2:
			acc = b.pAdd(b.anyGen(), acc)
		case 3:
			acc = b.pSub(acc, b.anyGen())
		case 4:
			acc = b.pSub(b.anyGen(), acc)
		case 5:
			acc = b.pNeg(acc)
		case 6:
			acc = b.pDbl(acc)
		case 7:
			acc = b.pAdd(acc, b.pMul(b.edgeScalar(120), b.anyGen()))
		case 8:
			// P + G - G: value of P in coordinates that went through two additions
			h := b.anyGen()
			acc = b.pSub(b.pAdd(acc, h), h)
		}
	}
	acc.class = "chain"
	return acc
}

// pIdentity returns one of the routes to the identity.
func (b *c03B) pIdentity(i int) c03P {
	g := b.g
	var p c03P
	switch i % 10 {
	case 0:
		p = b.pNull()
	case 1:
		p = b.pNeg(b.pNull())
	case 2:
		p = b.pSub(b.gens[0], b.gens[0])
	case 3:
		p = b.pMul(new(big.Int), b.anyGen())
	case 4:
		p = b.pMulBase(new(big.Int))
	case 5:
		k := b.nonzeroScalar(100)
		p = b.pAdd(b.pMulBase(k), b.pMulBase(new(big.Int).Sub(g.Q, k)))
	case 6:
		p = b.pAdd(b.pMulBase(new(big.Int).Sub(g.Q, big.NewInt(1))), b.gens[0])
	case 7:
		p = b.pSubSelf(b.pChain())
	case 8:
		x := b.pChain()
		p = b.pAdd(x, b.pNeg(x))
	case 9:
		p = b.pMul(b.edgeScalar(100), b.pNull())
	}
	p.class = "identity"
	return p
}

// pBase returns one of the routes to the canonical generator.
func (b *c03B) pBase(i int) c03P {
	var p c03P
	switch i % 6 {
	case 0:
		p = b.gens[0]
	case 1:
		p = b.pMulBase(big.NewInt(1))
		p.triv = false
	case 2:
		p = b.pMul(big.NewInt(1), b.gens[0])
	case 3:
		p = b.pAdd(b.pNull(), b.gens[0])
	case 4:
		p = b.pSub(b.pDbl(b.gens[0]), b.gens[0])
	case 5:
		p = b.pNeg(b.pMulBase(new(big.Int).Sub(b.g.Q, big.NewInt(1))))
	}
	p.class = "base"
	return p
}

// pRandom draws a point recipe; classes are weighted so that every run sees all of them.
func (b *c03B) pRandom() c03P {
	rng := b.rng
	switch c := rng.IntN(20); {
	case c < 2:
		return b.pIdentity(rng.IntN(10))
	case c < 3:
		return b.pBase(rng.IntN(6))
	case c < 6:
		if rng.IntN(2) == 0 {
			return b.pMulBase(b.edgeScalar(160))
		}
		return b.withClass(b.pMul(b.edgeScalar(160), b.gens[0]), "multiple")
	case c < 11:
		return b.pChain()
	case c < 14:
		if rng.IntN(2) == 0 || len(b.gens) == 1 {
			return b.pMul(b.edgeScalar(140), b.pChain())
		}
		return b.pMul(b.edgeScalar(140), b.gens[1+rng.IntN(len(b.gens)-1)])
	case c < 16:
		if o, ok := b.opaque(); ok {
			return o
		}
		return b.pChain()
	case c < 18:
		if o, ok := b.opaque(); ok {
			h := b.anyGen()
			return b.withClass(b.pSub(b.pAdd(o, h), h), "opaque-nn")
		}
		return b.pChain()
	default:
		x := b.pChain()
		switch rng.IntN(3) {
		case 0:
			return b.pSet(x)
		case 1:
			return b.pClone(x)
		}
		return b.pDecoded(x)
	}
}

// pFixed is the deterministic list of edge points every run must see.
func (b *c03B) pFixed() []c03P {
	var out []c03P
	for i := 0; i < 10; i++ {
		out = append(out, b.pIdentity(i))
	}
	for i := 0; i < 6; i++ {
		out = append(out, b.pBase(i))
	}
	q := b.g.Q
	m := func(p c03P) c03P { p.class = "multiple"; return p }
	out = append(out, m(b.pNeg(b.gens[0])), m(b.pDbl(b.gens[0])), b.pMulBase(big.NewInt(2)),
		b.pMulBase(new(big.Int).Sub(q, big.NewInt(1))), b.pMulBase(new(big.Int).Sub(q, big.NewInt(2))),
		b.pMulBase(new(big.Int).Rsh(q, 1)), b.pMulBase(new(big.Int).Add(new(big.Int).Rsh(q, 1), big.NewInt(1))))
	return out
}

// pPair returns two recipes and whether they denote the same group element
// (decided by the shadow, never by the library).
func (b *c03B) pPair() (x, y c03P, eq bool, rel string) {
	rng := b.rng
	g := b.g
	known := func() c03P {
		for {
			p := b.pRandom()
			if p.k != nil {
				return p
			}
		}
	}
	nonzero := func() c03P {
		for {
			p := known()
			if !c03KIsZero(p.k) {
				return p
			}
		}
	}
	one := big.NewInt(1)
	switch rng.IntN(16) {
	case 0: // distributivity: aB+bB vs (a+b)B
		a, c := b.edgeScalar(120), b.edgeScalar(120)
		h := b.anyGen()
		return b.pAdd(b.pMul(a, h), b.pMul(c, h)), b.pMul(new(big.Int).Add(a, c), h), true, "aG+bG=(a+b)G"
	case 1: // a(bG) vs (ab)G
		a, c := b.edgeScalar(120), b.edgeScalar(120)
		h := b.anyGen()
		return b.pMul(a, b.pMul(c, h)), b.pMul(new(big.Int).Mul(a, c), h), true, "a(bG)=(ab)G"
	case 2: // P+Q-Q vs P
		p := b.pRandom()
		h := b.pChain()
		return b.pSub(b.pAdd(p, h), h), p, true, "P+Q-Q=P"
	case 3: // -(-P) vs P
		p := b.pRandom()
		return b.pNeg(b.pNeg(p)), p, true, "-(-P)=P"
	case 4: // chain vs its shadow materialised through Mul on each generator
		p := known()
		acc := b.pNull()
		rot := rng.IntN(b.m())
		for t := 0; t < b.m(); t++ {
			i := (t + rot) % b.m()
			if i == 0 {
				acc = b.pAdd(acc, b.pMulBase(p.k[0]))
			} else {
				acc = b.pAdd(acc, b.pMul(p.k[i], b.gens[i]))
			}
		}
		return p, acc, true, "P=sum(k_i*G_i)"
	case 5: // decoded / cloned / set copy vs original
		p := b.pRandom()
		switch rng.IntN(3) {
		case 0:
			return b.pDecoded(p), p, true, "Decode(Encode(P))=P"
		case 1:
			return b.pClone(p), p, true, "Clone(P)=P"
		}
		return b.pSet(p), p, true, "Set(P)=P"
	case 6: // 2P by Add vs by Mul
		p := b.pRandom()
		return b.pDbl(p), b.pMul(big.NewInt(2), p), true, "P+P=2P"
	case 7: // (q-1)P vs -P
		p := b.pRandom()
		return b.pMul(new(big.Int).Sub(g.Q, one), p), b.pNeg(p), true, "(q-1)P=-P"
	case 8: // P vs P+G
		p := b.pRandom()
		return p, b.pAdd(p, b.anyGen()), false, "P!=P+G"
	case 9: // P vs -P, P != O (all groups have odd prime order)
		p := nonzero()
		return p, b.pNeg(p), false, "P!=-P"
	case 10: // P vs 2P, P != O
		p := nonzero()
		return p, b.pDbl(p), false, "P!=2P"
	case 11: // kB vs (k+2^j)B: scalars differing in a single bit
		k := b.edgeScalar(100)
		j := uint(rng.IntN(g.Q.BitLen() - 1))
		k2 := new(big.Int).Add(k, new(big.Int).Lsh(one, j))
		return b.pMulBase(k), b.pMulBase(k2), false, "kB!=(k+2^j)B"
	case 12: // kB vs (k±1)B
		k := b.edgeScalar(160)
		d := int64(1)
		if rng.IntN(2) == 0 {
			d = -1
		}
		return b.pMulBase(k), b.pAdd(b.pMulBase(new(big.Int).Add(k, big.NewInt(d))), b.pNull()), false, "kB!=(k+-1)B"
	case 13: // O vs non-zero
		return b.pIdentity(rng.IntN(10)), nonzero(), false, "O!=P"
	default: // two random recipes judged by their shadows
		p, q := known(), known()
		if c03KEqual(p.k, q.k) {
			return p, q, true, "shadow-equal"
		}
		return p, q, false, "shadow-different"
	}
}

// ---- scalar combinators ------------------------------------------------------

func (b *c03B) mod(x *big.Int) *big.Int { return new(big.Int).Mod(x, b.g.Q) }

func (b *c03B) sFromBig(x *big.Int, class string) c03S {
	g := b.g
	v := b.mod(x)
	return c03S{class: class, route: "SetBytes(" + c03Short(v) + ")", v: v, mk: func() kyber.Scalar { return g.ScalarFromBig(v) }}
}

// sSetBytesRaw feeds the given integer (possibly >= q, possibly zero padded) to SetBytes in the declared byte order.
func (b *c03B) sSetBytesRaw(x *big.Int, padTo int, class string) c03S {
	g := b.g
	bo := g.Scalar().ByteOrder()
	raw := c03IntBytes(x, bo, padTo)
	if len(raw) == 0 {
		raw = []byte{0}
	}
	return c03S{class: class, route: fmt.Sprintf("SetBytes[%dB](%s)", len(raw), c03Short(x)), v: b.mod(x),
		mk: func() kyber.Scalar { return g.Scalar().SetBytes(append([]byte(nil), raw...)) }}
}

func (b *c03B) sInt64(v int64) c03S {
	g := b.g
	return c03S{class: "setint64", route: fmt.Sprintf("SetInt64(%d)", v), v: b.mod(big.NewInt(v)), mk: func() kyber.Scalar { return g.Scalar().SetInt64(v) }}
}

func (b *c03B) sZero() c03S {
	g := b.g
	return c03S{class: "zero", route: "Zero", v: new(big.Int), triv: true, mk: func() kyber.Scalar { return g.Scalar().Zero() }}
}

func (b *c03B) sOne() c03S {
	g := b.g
	return c03S{class: "one", route: "One", v: big.NewInt(1), triv: true, mk: func() kyber.Scalar { return g.Scalar().One() }}
}

func (b *c03B) sPick() c03S {
	g := b.g
	seed := string(b.rng.Bytes(16))
	return c03S{class: "pick", route: fmt.Sprintf("Pick(%x)", seed), mk: func() kyber.Scalar { return g.Scalar().Pick(groups.Stream(seed)) }}
}

func (b *c03B) sBin(op string, x, y c03S) c03S {
	g := b.g
	var v *big.Int
	if x.v != nil && y.v != nil {
		switch op {
		case "Add":
			v = b.mod(new(big.Int).Add(x.v, y.v))
		case "Sub":
			v = b.mod(new(big.Int).Sub(x.v, y.v))
		case "Mul":
			v = b.mod(new(big.Int).Mul(x.v, y.v))
		case "Div":
			v = b.mod(new(big.Int).Mul(x.v, new(big.Int).ModInverse(y.v, g.Q)))
		}
	}
	return c03S{class: "arith", route: op + "(" + x.route + "," + y.route + ")", v: v, mk: func() kyber.Scalar {
		a, c := x.mk(), y.mk()
		switch op {
		case "Add":
			return g.Scalar().Add(a, c)
		case "Sub":
			return g.Scalar().Sub(a, c)
		case "Mul":
			return g.Scalar().Mul(a, c)
		}
		return g.Scalar().Div(a, c)
	}}
}

func (b *c03B) sUn(op string, x c03S) c03S {
	g := b.g
	var v *big.Int
	if x.v != nil {
		switch op {
		case "Neg":
			v = b.mod(new(big.Int).Neg(x.v))
		case "Inv":
			v = new(big.Int).ModInverse(x.v, g.Q)
		default:
			v = x.v
		}
	}
	class := "arith"
	if op == "Set" || op == "Clone" || op == "Decode" {
		class = "copy"
	}
	return c03S{class: class, route: op + "(" + x.route + ")", v: v, mk: func() kyber.Scalar {
		a := x.mk()
		switch op {
		case "Neg":
			return g.Scalar().Neg(a)
		case "Inv":
			return g.Scalar().Inv(a)
		case "Set":
			return g.Scalar().Set(a)
		case "Clone":
			return a.Clone()
		}
		e := groups.Enc(a)
		s := g.Scalar()
		if err := s.UnmarshalBinary(e); err != nil {
			panic(fmt.Sprintf("decoding own scalar encoding %x failed: %v", e, err))
		}
		return s
	}}
}

// sSelf applies a binary op with the very same object as both operands.
func (b *c03B) sSelf(op string, x c03S) c03S {
	g := b.g
	v := new(big.Int)
	class := "zero"
	if op == "Div" {
		v = big.NewInt(1)
		class = "one"
	}
	return c03S{class: class, route: op + "(=" + x.route + ",=)", v: v, mk: func() kyber.Scalar {
		a := x.mk()
		if op == "Div" {
			return g.Scalar().Div(a, a)
		}
		return g.Scalar().Sub(a, a)
	}}
}

func (b *c03B) withClassS(x c03S, class string) c03S { x.class = class; return x }

// sLeaf is a reduced scalar made directly from data.
func (b *c03B) sLeaf() c03S {
	rng := b.rng
	g := b.g
	L := g.Grp.ScalarLen()
	switch c := rng.IntN(12); {
	case c < 4:
		return b.sFromBig(gen.Pick(rng, b.edge), "edge")
	case c < 6:
		// short values: leading zero bytes in the fixed-width encoding
		bits := 1 + rng.IntN(g.Q.BitLen()-8)
		v := new(big.Int).SetBytes(rng.Bytes((bits + 7) / 8))
		v.Rsh(v, uint((8-bits%8)%8))
		return b.sFromBig(v, "short")
	case c < 7:
		vals := []int64{0, 1, -1, 2, -2, 255, 256, -256, 1 << 31, -(1 << 31), 1 << 62, math.MaxInt64, math.MinInt64, int64(rng.Uint64()), int64(rng.Uint64() >> uint(rng.IntN(64)))}
		return b.sInt64(gen.Pick(rng, vals))
	case c < 9:
		// long / unreduced / zero-padded input to SetBytes: the result must be in reduced form
		n := 1 + rng.IntN(2*L+8)
		x := new(big.Int).SetBytes(rng.Bytes(n))
		pad := 0
		if rng.IntN(3) == 0 {
			pad = n + rng.IntN(8)
		}
		return b.sSetBytesRaw(x, pad, "setbytes-long")
	case c < 10:
		return b.sPick()
	default:
		return b.sFromBig(rng.Big(g.Q), "random")
	}
}

func (b *c03B) sNonzeroLeaf() c03S {
	for {
		s := b.sLeaf()
		if s.v != nil && s.v.Sign() != 0 {
			return s
		}
	}
}

// sExpr is a random arithmetic expression; every result is in reduced form by the API contract.
func (b *c03B) sExpr(depth int) c03S {
	rng := b.rng
	if depth == 0 {
		return b.sLeaf()
	}
	switch rng.IntN(8) {
	case 0, 1:
		return b.sBin("Add", b.sExpr(depth-1), b.sLeaf())
	case 2:
		return b.sBin("Sub", b.sLeaf(), b.sExpr(depth-1))
	case 3, 4:
		return b.sBin("Mul", b.sExpr(depth-1), b.sLeaf())
	case 5:
		return b.sBin("Div", b.sExpr(depth-1), b.sNonzeroLeaf())
	case 6:
		return b.sUn("Neg", b.sExpr(depth-1))
	default:
		return b.sUn("Inv", b.sNonzeroLeaf())
	}
}

func (b *c03B) sZeroRoute(i int) c03S {
	var s c03S
	switch i % 8 {
	case 0:
		s = b.sZero()
	case 1:
		s = b.sInt64(0)
	case 2:
		s = b.sSelf("Sub", b.sLeaf())
	case 3:
		s = b.sBin("Mul", b.sZero(), b.sLeaf())
	case 4:
		x := b.sLeaf()
		s = b.sBin("Add", x, b.sUn("Neg", x))
	case 5:
		s = b.sSetBytesRaw(new(big.Int), b.rng.IntN(2*b.g.Grp.ScalarLen()), "zero")
	case 6:
		s = b.sSetBytesRaw(new(big.Int).Mul(b.g.Q, big.NewInt(int64(1+b.rng.IntN(3)))), 0, "zero")
	case 7:
		s = b.sUn("Neg", b.sZero())
	}
	s.class = "zero"
	return s
}

func (b *c03B) sOneRoute(i int) c03S {
	var s c03S
	switch i % 6 {
	case 0:
		s = b.sOne()
	case 1:
		s = b.sInt64(1)
	case 2:
		s = b.sSelf("Div", b.sNonzeroLeaf())
	case 3:
		x := b.sNonzeroLeaf()
		s = b.sBin("Mul", x, b.sUn("Inv", x))
	case 4:
		s = b.sSetBytesRaw(new(big.Int).Add(b.g.Q, big.NewInt(1)), 0, "one")
	case 5:
		s = b.sUn("Inv", b.sOne())
	}
	s.class = "one"
	return s
}

func (b *c03B) sQm1Route(i int) c03S {
	var s c03S
	qm1 := new(big.Int).Sub(b.g.Q, big.NewInt(1))
	switch i % 5 {
	case 0:
		s = b.sUn("Neg", b.sOne())
	case 1:
		s = b.sInt64(-1)
	case 2:
		s = b.sFromBig(qm1, "q-1")
	case 3:
		s = b.sBin("Sub", b.sZero(), b.sOne())
	case 4:
		s = b.sSetBytesRaw(new(big.Int).Add(qm1, b.g.Q), 0, "q-1")
	}
	s.class = "q-1"
	return s
}

func (b *c03B) sRandom() c03S {
	rng := b.rng
	switch c := rng.IntN(20); {
	case c < 2:
		return b.sZeroRoute(rng.IntN(8))
	case c < 3:
		return b.sOneRoute(rng.IntN(6))
	case c < 4:
		return b.sQm1Route(rng.IntN(5))
	case c < 11:
		return b.sLeaf()
	case c < 17:
		return b.sExpr(1 + rng.IntN(3))
	default:
		x := b.sExpr(rng.IntN(3))
		return b.sUn(gen.Pick(rng, []string{"Set", "Clone", "Decode"}), x)
	}
}

func (b *c03B) sFixed() []c03S {
	var out []c03S
	for i := 0; i < 8; i++ {
		out = append(out, b.sZeroRoute(i))
	}
	for i := 0; i < 6; i++ {
		out = append(out, b.sOneRoute(i))
	}
	for i := 0; i < 5; i++ {
		out = append(out, b.sQm1Route(i))
	}
	for _, e := range b.edge {
		out = append(out, b.sFromBig(e, "edge"))
	}
	return out
}

// sPair returns two scalar recipes and whether they are the same residue.
func (b *c03B) sPair() (x, y c03S, eq bool, rel string) {
	rng := b.rng
	g := b.g
	known := func() c03S {
		for {
			s := b.sRandom()
			if s.v != nil {
				return s
			}
		}
	}
	one := big.NewInt(1)
	switch rng.IntN(12) {
	case 0: // v vs v+q (and v+2q) through SetBytes
		s := known()
		return s, b.sSetBytesRaw(new(big.Int).Add(s.v, new(big.Int).Mul(g.Q, big.NewInt(int64(1+rng.IntN(2))))), 0, "setbytes-long"), true, "v=v+q"
	case 1: // a+b-b vs a
		a, c := b.sRandom(), b.sRandom()
		return b.sBin("Sub", b.sBin("Add", a, c), c), a, true, "a+b-b=a"
	case 2: // (-1)a vs Neg(a)
		a := b.sRandom()
		return b.sBin("Mul", b.sInt64(-1), a), b.sUn("Neg", a), true, "(-1)a=-a"
	case 3: // a*b/b vs a
		a, c := b.sRandom(), b.sNonzeroLeaf()
		return b.sBin("Div", b.sBin("Mul", a, c), c), a, true, "ab/b=a"
	case 4: // copies
		a := b.sRandom()
		return b.sUn(gen.Pick(rng, []string{"Set", "Clone", "Decode"}), a), a, true, "copy=a"
	case 5: // value rebuilt from its residue
		a := known()
		return a, b.sFromBig(a.v, "random"), true, "a=SetBytes(residue)"
	case 6: // v vs v+1
		a := known()
		return a, b.sBin("Add", a, b.sOne()), false, "a!=a+1"
	case 7: // v vs v+2^j: one bit anywhere in the encoding
		a := known()
		j := uint(rng.IntN(g.Q.BitLen() - 1))
		return a, b.sFromBig(new(big.Int).Add(a.v, new(big.Int).Lsh(one, j)), "random"), false, "a!=a+2^j"
	case 8: // v vs -v, v != 0 (q odd)
		for {
			a := known()
			if a.v.Sign() != 0 {
				return a, b.sUn("Neg", a), false, "a!=-a"
			}
		}
	case 9: // 0 vs non-zero
		return b.sZeroRoute(rng.IntN(8)), b.sNonzeroLeaf(), false, "0!=a"
	default:
		p, q := known(), known()
		if p.v.Cmp(q.v) == 0 {
			return p, q, true, "shadow-equal"
		}
		return p, q, false, "shadow-different"
	}
}
