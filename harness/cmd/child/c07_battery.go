package main

import (
	"fmt"
	"math/big"

	"go.dedis.ch/kyber/v4"
	"go.dedis.ch/kyber/v4/share"

	"verif/internal/gen"
	"verif/internal/groups"
	"verif/internal/mon"
	"verif/internal/ref"
)

// The battery: every polynomial object the API *derives* (sums, products,
// commitments, recovered polynomials, polynomials rebuilt from Info()) must
// behave exactly like a freshly dealt polynomial with the same coefficients:
// Info/Threshold/Commit, Eval and Shares against the math/big reference,
// Check accepting exactly the reference-valid shares, Equal.

// c07base is one way of naming a base point to the API.
type c07base struct {
	class string
	arg   kyber.Point // what the API receives (nil = standard base)
	pt    kyber.Point // the group element the oracle multiplies with (never nil)
}

// c07Bases returns one base of every class: nil, k*B, explicit Base(), Pick.
func c07Bases(g *groups.G, rng *gen.Rng) []c07base {
	B := g.Point().Base()
	k := new(big.Int).Add(rng.Big(new(big.Int).Sub(g.Q, big.NewInt(1))), big.NewInt(1))
	kB := g.Point().Mul(g.ScalarFromBig(k), g.Point().Base())
	out := []c07base{
		{"nil", nil, B},
		{"k*B", c07DecP(g, groups.Enc(kB)), kB},
		{"Base()", g.Point().Base(), g.Point().Base()},
	}
	var pk kyber.Point
	if g.CanPick {
		pk = g.Point().Pick(rng.Stream())
	} else {
		k2 := new(big.Int).Add(rng.Big(new(big.Int).Sub(g.Q, big.NewInt(1))), big.NewInt(1))
		pk = g.Point().Mul(g.ScalarFromBig(k2), g.Point().Base())
	}
	if pk.Equal(g.Point().Null()) {
		pk = g.Point().Add(g.Point().Base(), g.Point().Base())
	}
	out = append(out, c07base{"Pick", c07DecP(g, groups.Enc(pk)), pk})
	return out
}

// c07pubSpec says what a public polynomial must be.
type c07pubSpec struct {
	T         int
	commit    func(j int) kyber.Point    // expected commitment of coefficient j
	eval      func(i uint32) kyber.Point // expected public share i
	rp        *ref.C07Poly               // committed polynomial; nil when Check has no meaning (operands over unrelated bases)
	base      kyber.Point                // expected Info() base as a group element (nil: not judged)
	nilBase   bool                       // Info() base must be nil (standard base)
	baseClass string
}

func c07SpecOver(g *groups.G, rp *ref.C07Poly, b c07base) *c07pubSpec {
	return &c07pubSpec{T: len(rp.C), rp: rp, base: b.pt, nilBase: b.arg == nil, baseClass: b.class,
		commit: func(j int) kyber.Point { return g.Point().Mul(g.ScalarFromBig(rp.C[j]), b.pt) },
		eval:   func(i uint32) kyber.Point { return g.Point().Mul(g.ScalarFromBig(rp.EvalIndex(i)), b.pt) }}
}

type c07bat struct {
	r     *mon.R
	g     *groups.G
	rng   *gen.Rng
	n     int    // Shares(n) and index range
	ctx   string // distinct-descriptor prefix of the surrounding case
	det   func(extra map[string]any) map[string]any
	light bool
}

func (b *c07bat) viol(how, class, what, msg string, extra map[string]any) {
	if extra == nil {
		extra = map[string]any{}
	}
	extra["derived_by"], extra["base_class"] = how, class
	b.r.Violation("C07/"+b.g.Name+"/"+how+"/"+class+"/"+what, msg+" [object derived by "+how+", base class "+class+"]", b.det(extra))
}

func (b *c07bat) indices(k int) []uint32 {
	out := []uint32{0}
	if b.n > 1 {
		out = append(out, uint32(1+b.rng.IntN(b.n-1)))
	}
	out = append(out, uint32(b.n))
	for len(out) < k {
		out = append(out, uint32(b.rng.IntN(40)))
	}
	return out[:k]
}

// pub runs the battery on a public polynomial. level 0 = full (and repeats a
// light battery on the polynomial rebuilt by NewPubPoly from Info()).
func (b *c07bat) pub(how string, pub *share.PubPoly, sp *c07pubSpec, level int) {
	g, r := b.g, b.r
	cl := sp.baseClass
	r.Op("PubPoly.Info", "PubPoly.Threshold", "PubPoly.Commit", "PubPoly.Eval", "PubPoly.Shares", "PubPoly.Check", "PubPoly.Equal", "NewPubPoly")
	d := func(s string) string { return fmt.Sprintf("%s|%s|%s|%s", b.ctx, how, cl, s) }
	r.SampleClass("battery/"+how+"/"+cl, map[string]any{"kind": "derived-object battery", "derived_by": how, "base_class": cl, "group": g.Name, "threshold": sp.T, "check_judged": sp.rp != nil})
	if pub == nil {
		b.viol(how, cl, "nil-object", "derived public polynomial is nil", nil)
		return
	}
	// Info / Threshold / Commit
	bArg, commits := pub.Info()
	r.Eval("battery/"+how+"/Info", d("info"), true)
	if sp.nilBase {
		if bArg != nil {
			b.viol(how, cl, "Info/wrong-base", "Info() reports an explicit base although the polynomial is over the standard base", map[string]any{"got": mon.Hex(groups.Enc(bArg))})
		}
	} else if sp.base != nil {
		if bArg == nil {
			b.viol(how, cl, "Info/base-lost", "Info() reports the standard base (nil) although the polynomial is over an explicit base", map[string]any{"want": mon.Hex(groups.Enc(sp.base))})
		} else if ok, why := c07SamePt(bArg, sp.base); !ok {
			b.viol(how, cl, "Info/wrong-base", "Info() reports another base than the one the polynomial is committed over", map[string]any{"why": why})
		}
	}
	want := make([]kyber.Point, sp.T)
	for j := range want {
		want[j] = sp.commit(j)
	}
	okCommits := len(commits) == sp.T && int(pub.Threshold()) == sp.T
	if !okCommits {
		b.viol(how, cl, "Info/wrong-threshold", "number of commitments / Threshold() differs from the expected threshold", map[string]any{"len": len(commits), "Threshold": pub.Threshold(), "want": sp.T})
	} else {
		for j := range commits {
			if ok, why := c07SamePt(commits[j], want[j]); !ok {
				b.viol(how, cl, "Info/wrong-commitment", "commitment j differs from the reference", map[string]any{"j": j, "why": why})
				okCommits = false
				break
			}
		}
		c0 := pub.Commit()
		if ok, why := c07SamePt(c0, want[0]); !ok {
			b.viol(how, cl, "Commit/wrong", "Commit() differs from the reference commitment of the constant term", map[string]any{"why": why})
		} else if level == 0 && okCommits {
			// Commit() hands out a value: overwriting it must not reach the polynomial
			c0.Add(c0, g.Point().Base())
			if ok, why := c07SamePt(pub.Eval(0).V, sp.eval(0)); !ok {
				b.viol(how, cl, "Commit/aliases-polynomial", "overwriting the point returned by Commit() changed the polynomial", map[string]any{"why": why})
				c0.Sub(c0, g.Point().Base())
			}
		}
	}
	// Eval / Shares
	nIdx := 3
	if level > 0 || b.light {
		nIdx = 2
	}
	idx := b.indices(nIdx)
	for _, i := range idx {
		r.Eval("battery/"+how+"/Eval", d(fmt.Sprintf("ev%d", i)), true)
		ev := pub.Eval(i)
		if ev == nil || ev.I != i {
			b.viol(how, cl, "Eval/wrong-index", "Eval(i) returns a share with another index", map[string]any{"i": i})
		} else if ok, why := c07SamePt(ev.V, sp.eval(i)); !ok {
			b.viol(how, cl, "Eval/wrong-share", "Eval(i) differs from the reference evaluation", map[string]any{"i": i, "why": why})
		}
	}
	if level == 0 {
		ns := b.n
		if ns > 3 {
			ns = 3
		}
		sh := pub.Shares(uint32(ns))
		r.Eval("battery/"+how+"/Shares", d("shares"), true)
		if len(sh) != ns {
			b.viol(how, cl, "Shares/wrong-count", "Shares(n) does not return n shares", map[string]any{"n": ns, "got": len(sh)})
		} else {
			for i, s := range sh {
				if s == nil || s.I != uint32(i) {
					b.viol(how, cl, "Shares/wrong-index", "Shares(n)[i] has another index", map[string]any{"i": i})
				} else if ok, why := c07SamePt(s.V, sp.eval(uint32(i))); !ok {
					b.viol(how, cl, "Shares/wrong-share", "Shares(n)[i] differs from the reference evaluation", map[string]any{"i": i, "why": why})
				}
			}
		}
	}
	// Check: accepted exactly when on the committed polynomial
	if sp.rp != nil {
		judge := func(class string, i uint32, val *big.Int) {
			v := new(big.Int).Mod(val, g.Q)
			wantOK := sp.rp.EvalIndex(i).Cmp(v) == 0
			got := pub.Check(&share.PriShare{I: i, V: g.ScalarFromBig(v)})
			r.Eval("battery/"+how+"/Check/"+class, d(fmt.Sprintf("ck|%s|%d|%s", class, i, v.Text(16))), true)
			if wantOK {
				c07Counter("check/accepted").Add(1)
			} else {
				c07Counter("check/rejected").Add(1)
			}
			if got != wantOK {
				what, msg := "Check/"+class+"/accepts-off-polynomial", "Check accepts a share that does not lie on the committed polynomial"
				if wantOK {
					what, msg = "Check/"+class+"/rejects-on-polynomial", "Check rejects a share that lies on the committed polynomial"
				}
				b.viol(how, cl, what, msg, map[string]any{"index": i, "value": v.Text(16), "honest_value": sp.rp.EvalIndex(i).Text(16)})
			}
		}
		for _, i := range idx[:2] {
			v := sp.rp.EvalIndex(i)
			judge("honest", i, v)
			judge("value+1", i, new(big.Int).Add(v, big.NewInt(1)))
			if level == 0 {
				j := i + 1 + uint32(b.rng.IntN(3))
				judge("wrong-index", j, v)
			}
		}
	}
	// Equal against an independently built polynomial with the reference commitments
	if okCommits {
		mk := func(perturb bool) *share.PubPoly {
			cs := make([]kyber.Point, sp.T)
			for j := range cs {
				cs[j] = c07DecP(g, groups.Enc(want[j]))
			}
			if perturb {
				cs[sp.T-1] = g.Point().Add(cs[sp.T-1], g.Point().Base())
			}
			var bb kyber.Point
			if !sp.nilBase && sp.base != nil {
				bb = c07DecP(g, groups.Enc(sp.base))
			}
			return share.NewPubPoly(g.Grp, bb, cs)
		}
		r.Eval("battery/"+how+"/Equal", d("equal"), true)
		same, other := mk(false), mk(true)
		if !pub.Equal(same) || !same.Equal(pub) {
			b.viol(how, cl, "Equal/false-on-equal", "PubPoly.Equal is false against a polynomial with the same commitments", nil)
		}
		if pub.Equal(other) || other.Equal(pub) {
			b.viol(how, cl, "Equal/true-on-different", "PubPoly.Equal is true against a polynomial whose last commitment differs", nil)
		}
	}
	// the polynomial a remote party rebuilds from Info()
	if level == 0 {
		b.pub("NewPubPoly(Info("+how+"))", share.NewPubPoly(g.Grp, bArg, commits), sp, 1)
	}
}

// pubIntact: a cheap re-observation of an operand after it has been used.
func (b *c07bat) pubIntact(how string, pub *share.PubPoly, sp *c07pubSpec) {
	bArg, commits := pub.Info()
	b.r.Eval("battery/operand-intact", fmt.Sprintf("%s|%s|%s|intact", b.ctx, how, sp.baseClass), true)
	bad := ""
	if (bArg == nil) != sp.nilBase {
		bad = "base nil-ness changed"
	} else if bArg != nil && sp.base != nil && !bArg.Equal(sp.base) {
		bad = "base changed"
	} else if len(commits) != sp.T {
		bad = "number of commitments changed"
	} else {
		for j := range commits {
			if ok, why := c07SamePt(commits[j], sp.commit(j)); !ok {
				bad = fmt.Sprintf("commitment %d: %s", j, why)
				break
			}
		}
	}
	if bad != "" {
		b.viol(how, sp.baseClass, "operand-changed", "an operand polynomial changed after the derived object was built/used", map[string]any{"why": bad})
	}
}

func c07Coeffs(g *groups.G, pp *share.PriPoly) *ref.C07Poly {
	cs := pp.Coefficients()
	out := make([]*big.Int, len(cs))
	for i := range cs {
		out[i] = groups.ScalarToBig(cs[i])
	}
	return ref.C07NewPoly(g.Q, out)
}

// pri runs the battery on a private polynomial; bases lists the base classes
// under which its commitment is then put through the public battery.
func (b *c07bat) pri(how string, pp *share.PriPoly, rp *ref.C07Poly, bases []c07base) {
	g, r := b.g, b.r
	const cl = "private"
	r.Op("PriPoly.Threshold", "PriPoly.Coefficients", "PriPoly.Secret", "PriPoly.Eval", "PriPoly.Shares", "PriPoly.Equal", "PriPoly.Commit")
	d := func(s string) string { return fmt.Sprintf("%s|%s|%s", b.ctx, how, s) }
	r.SampleClass("battery/"+how+"/private", map[string]any{"kind": "derived-object battery", "derived_by": how, "group": g.Name, "threshold": len(rp.C)})
	if pp == nil {
		b.viol(how, cl, "nil-object", "derived private polynomial is nil", nil)
		return
	}
	r.Eval("battery/"+how+"/Coefficients", d("coeffs"), true)
	got := c07Coeffs(g, pp)
	if int(pp.Threshold()) != len(rp.C) || len(got.C) != len(rp.C) {
		b.viol(how, cl, "wrong-threshold", "Threshold()/number of coefficients differs from the expected threshold", map[string]any{"Threshold": pp.Threshold(), "len": len(got.C), "want": len(rp.C)})
	}
	if !got.Equal(rp) {
		b.viol(how, cl, "wrong-coefficients", "coefficients differ from the reference", map[string]any{"got": c07Big(got.C), "want": c07Big(rp.C)})
	} else if groups.ScalarToBig(pp.Secret()).Cmp(rp.C[0]) != 0 {
		b.viol(how, cl, "wrong-secret", "Secret() differs from the constant term", nil)
	}
	for _, i := range b.indices(3) {
		r.Eval("battery/"+how+"/Eval", d(fmt.Sprintf("ev%d", i)), true)
		ev := pp.Eval(i)
		if ev == nil || ev.I != i || groups.ScalarToBig(ev.V).Cmp(rp.EvalIndex(i)) != 0 {
			b.viol(how, cl, "Eval/wrong-share", "Eval(i) differs from the reference evaluation", map[string]any{"i": i, "want": rp.EvalIndex(i).Text(16)})
		}
	}
	ns := b.n
	if ns > 4 {
		ns = 4
	}
	sh := pp.Shares(uint32(ns))
	r.Eval("battery/"+how+"/Shares", d("shares"), true)
	if len(sh) != ns {
		b.viol(how, cl, "Shares/wrong-count", "Shares(n) does not return n shares", map[string]any{"n": ns, "got": len(sh)})
	} else {
		for i, s := range sh {
			if s == nil || s.I != uint32(i) || groups.ScalarToBig(s.V).Cmp(rp.EvalIndex(uint32(i))) != 0 {
				b.viol(how, cl, "Shares/wrong-share", "Shares(n)[i] differs from the reference evaluation", map[string]any{"i": i})
			}
		}
	}
	if len(got.C) == len(rp.C) && len(rp.C) > 0 {
		mk := func(perturb bool) *share.PriPoly {
			ss := make([]kyber.Scalar, len(rp.C))
			for j := range ss {
				ss[j] = g.ScalarFromBig(rp.C[j])
			}
			if perturb {
				ss[len(ss)-1] = g.Scalar().Add(ss[len(ss)-1], g.Scalar().One())
			}
			return share.CoefficientsToPriPoly(g.Grp, ss)
		}
		r.Eval("battery/"+how+"/Equal", d("equal"), true)
		same, other := mk(false), mk(true)
		if got.Equal(rp) && (!pp.Equal(same) || !same.Equal(pp)) {
			b.viol(how, cl, "Equal/false-on-equal", "PriPoly.Equal is false against a polynomial with the same coefficients", nil)
		}
		if got.Equal(rp) && (pp.Equal(other) || other.Equal(pp)) {
			b.viol(how, cl, "Equal/true-on-different", "PriPoly.Equal is true against a polynomial whose last coefficient differs", nil)
		}
	}
	for _, bs := range bases {
		pub := pp.Commit(bs.arg)
		b.pub(how+".Commit", pub, c07SpecOver(g, rp, bs), 0)
		// committing must leave the private polynomial as it was
		if !c07Coeffs(g, pp).Equal(got) {
			b.viol(how, bs.class, "Commit/changed-private-polynomial", "Commit changed the coefficients of the polynomial it commits to", nil)
		}
	}
}
