package main

// C08, ring signatures (sign/anon): ring sizes 1..8, every signer index,
// unlinkable and linkable, over five suites that provide kyber.Encoding.

import (
	"bytes"
	"crypto/cipher"
	"fmt"
	"math/big"

	"go.dedis.ch/kyber/v4"
	"go.dedis.ch/kyber/v4/group/edwards25519"
	"go.dedis.ch/kyber/v4/group/edwards25519vartime"
	"go.dedis.ch/kyber/v4/group/p256"
	"go.dedis.ch/kyber/v4/pairing/bn256"
	"go.dedis.ch/kyber/v4/sign/anon"

	"verif/internal/gen"
	"verif/internal/groups"
	"verif/internal/mon"
	"verif/internal/ref"
)

var c08RingSuites = []string{"ed25519", "edvartime", "p256", "qr512", "bn256.G1"}

type c08RingSuite struct {
	kyber.Group
	kyber.Encoding
	kyber.XOFFactory
	rs cipher.Stream
}

func (s *c08RingSuite) RandomStream() cipher.Stream { return s.rs }

type c08BaseSuite interface {
	kyber.Group
	kyber.Encoding
	kyber.XOFFactory
}

func c08NewRingSuite(name string, rs cipher.Stream) *c08RingSuite {
	var b c08BaseSuite
	switch name {
	case "ed25519":
		b = edwards25519.NewBlakeSHA256Ed25519()
	case "edvartime":
		b = edwards25519vartime.NewBlakeSHA256Ed25519(false)
	case "p256":
		b = p256.NewBlakeSHA256P256()
	case "qr512":
		b = p256.NewBlakeSHA256QR512()
	case "bn256.G1":
		b = bn256.NewSuiteG1()
	default:
		panic("harness: unknown ring suite " + name)
	}
	return &c08RingSuite{Group: b, Encoding: b, XOFFactory: b, rs: rs}
}

var _ anon.Suite = (*c08RingSuite)(nil)

type c08RingCase struct {
	class, pos string
	msg        []byte
	ring       [][]byte
	scope      []byte
	sig        []byte
	demand     int
	why        string
}

func c08CloneRing(r [][]byte) [][]byte {
	out := make([][]byte, len(r))
	for i := range r {
		out[i] = c08Clone(r[i])
	}
	return out
}

func c08ScopeStr(s []byte) string {
	if s == nil {
		return "nil"
	}
	return "hex:" + mon.Hex(s)
}

// light: suites whose group operations cost milliseconds get one variant per
// mutation class instead of sampled bit positions.
func c08RingJob(r *mon.R, sn string, rep, n int, light bool) {
	rng := gen.New(r.Seed, "C08ring/"+sn, rep*8+n)
	suite := c08NewRingSuite(sn, rng.Stream())
	g := c08NewGrp(sn, suite.Group, false)
	where := "ring/" + sn
	r.Op("anon.Sign", "anon.Verify")

	const pool = 10
	xs := make([]*big.Int, pool)
	encs := make([][]byte, pool)
	for i := range xs {
		for {
			xs[i] = rng.Big(g.q)
			dup := xs[i].Sign() == 0
			for j := 0; j < i; j++ {
				dup = dup || xs[j].Cmp(xs[i]) == 0
			}
			if !dup {
				break
			}
		}
		encs[i] = groups.Enc(g.point().Mul(g.scalarFromBig(xs[i]), nil))
	}
	perm := rng.Perm(pool)
	ringIdx := perm[:n]
	outsider := perm[n]
	ring0 := make([][]byte, n)
	for i, k := range ringIdx {
		ring0[i] = encs[k]
	}
	decodeRing := func(es [][]byte) (anon.Set, error) {
		out := make(anon.Set, len(es))
		for i, e := range es {
			p := g.point()
			if err := p.UnmarshalBinary(c08Clone(e)); err != nil {
				return nil, fmt.Errorf("ring member %d does not decode: %w", i, err)
			}
			out[i] = p
		}
		return out, nil
	}
	verify := func(msg []byte, ringE [][]byte, scope, sig []byte) (tag []byte, o c08Out) {
		o = c08Run(func() error {
			set, err := decodeRing(ringE)
			if err != nil {
				return err
			}
			var sc []byte
			if scope != nil {
				sc = append([]byte{}, scope...)
			}
			t, err := anon.Verify(suite, c08Clone(msg), set, sc, c08Clone(sig))
			tag = t
			return err
		})
		return
	}
	sign := func(msg []byte, ringE [][]byte, scope []byte, mine int, x *big.Int) (sig []byte, o c08Out) {
		o = c08Run(func() error {
			set, err := decodeRing(ringE)
			if err != nil {
				return err
			}
			var sc []byte
			if scope != nil {
				sc = append([]byte{}, scope...)
			}
			sig = anon.Sign(suite, c08Clone(msg), set, sc, mine, g.scalarFromBig(x))
			return nil
		})
		return
	}
	tagOf := func(x *big.Int, scope []byte) []byte {
		base := g.point().Pick(suite.XOF(scope))
		return groups.Enc(g.point().Mul(g.scalarFromBig(x), base))
	}

	msgLens := []int{0, 1, 32, 64, 65, 200, 1000, 4096}
	for mine := 0; mine < n; mine++ {
		x := xs[ringIdx[mine]]
		for _, linkable := range []bool{false, true} {
			var scope []byte
			if linkable {
				switch (mine + rep + n) % 4 {
				case 0:
					scope = []byte{} // non-nil, empty: still linkable
				case 1:
					scope = rng.Bytes(1 + rng.IntN(16))
				case 2:
					scope = rng.Bytes(200)
				default:
					scope = []byte("scope-" + fmt.Sprint(rep))
				}
			}
			msg0 := rng.Bytes(msgLens[(mine+n+rep)%len(msgLens)])
			if rng.IntN(3) == 0 {
				msg0 = rng.Bytes(rng.IntN(300))
			}
			mode := "unlinkable"
			if linkable {
				mode = "linkable"
			}
			desc := fmt.Sprintf("rep=%d|n=%d|mine=%d|%s|len=%d", rep, n, mine, mode, len(msg0))
			wit0 := func() map[string]any {
				rh := make([]string, n)
				for i := range ring0 {
					rh[i] = mon.Hex(ring0[i])
				}
				return map[string]any{"suite": sn, "rep": rep, "n": n, "mine": mine, "private": x.Text(16), "ring": rh, "scope": c08ScopeStr(scope), "msg": mon.Hex(msg0)}
			}
			sig0, o := sign(msg0, ring0, scope, mine, x)
			wantLen := g.sLen * (n + 1)
			if linkable {
				wantLen += g.pLen
			}
			if o.accepted && len(sig0) != wantLen {
				o = c08Out{err: fmt.Sprintf("signature length %d, want %d", len(sig0), wantLen)}
			}
			c08Judge(r, where, "anon.Sign", "honest/"+mode, desc, true, c08Accept, o, wit0)
			if !o.accepted {
				continue
			}
			sig0 = c08Clone(sig0)
			witS := func() map[string]any { d := wit0(); d["sig"] = mon.Hex(sig0); return d }
			tag0, o := verify(msg0, ring0, scope, sig0)
			c08Judge(r, where, "anon.Verify", "honest/"+mode, desc, true, c08Accept, o, witS)
			if !o.accepted {
				continue
			}
			c08NoteAdd(fmt.Sprintf("ring-honest/%s/n=%d", sn, n), 1)
			if linkable {
				want := tagOf(x, scope)
				c08Check(r, where, "anon.Verify", "tag=x*H(scope)", desc, bytes.Equal(tag0, want), func() map[string]any {
					d := witS()
					d["tag"], d["want"] = mon.Hex(tag0), mon.Hex(want)
					return d
				})
			} else {
				c08Check(r, where, "anon.Verify", "unlinkable-tag-empty-non-nil", desc, tag0 != nil && len(tag0) == 0, func() map[string]any {
					d := witS()
					d["tag"] = fmt.Sprintf("%#v", tag0)
					return d
				})
			}

			// ---- mutation matrix
			var cs []*c08RingCase
			add := func(class, pos, why string, demand int, msg []byte, ring [][]byte, sc []byte, sig []byte) {
				cs = append(cs, &c08RingCase{class: class, pos: pos, msg: msg, ring: ring, scope: sc, sig: sig, demand: demand, why: why})
			}
			if len(msg0) > 0 {
				mb := append([]int{8*len(msg0) - 1}, c08RandBits(rng, 8*len(msg0)-1, 3)...)
				if light {
					mb = mb[:1]
				}
				for _, b := range mb {
					add("msg-bitflip", fmt.Sprint(b), "message differs", c08Reject, gen.FlipBit(msg0, b), ring0, scope, sig0)
				}
				add("msg-truncate", "", "message differs", c08Reject, c08Clone(msg0[:len(msg0)-1]), ring0, scope, sig0)
			}
			add("msg-extend", "", "message differs", c08Reject, c08Cat(msg0, []byte{0}), ring0, scope, sig0)
			// ring
			repl := func(i int, e []byte) [][]byte { q := c08CloneRing(ring0); q[i] = e; return q }
			add("ring-replace", "signer", "ring member replaced by an outsider key", c08Reject, msg0, repl(mine, encs[outsider]), scope, sig0)
			if n >= 2 {
				j := (mine + 1 + rng.IntN(n-1)) % n
				add("ring-replace", "non-signer", "ring member replaced by an outsider key", c08Reject, msg0, repl(j, encs[outsider]), scope, sig0)
				add("ring-duplicate", "", "ring member replaced by a copy of the signer key", c08Reject, msg0, repl(j, ring0[mine]), scope, sig0)
				sw := c08CloneRing(ring0)
				sw[mine], sw[j] = sw[j], sw[mine]
				add("ring-swap", "", "ring order changed (distinct keys)", c08Reject, msg0, sw, scope, sig0)
				rot := append(c08CloneRing(ring0[1:]), c08Clone(ring0[0]))
				add("ring-rotate", "", "ring order changed (distinct keys)", c08Reject, msg0, rot, scope, sig0)
				add("ring-drop", "last", "ring shortened", c08Reject, msg0, c08CloneRing(ring0[:n-1]), scope, sig0)
				add("ring-drop", "first", "ring shortened", c08Reject, msg0, c08CloneRing(ring0[1:]), scope, sig0)
			}
			add("ring-append", "", "ring extended by an outsider key", c08Reject, msg0, append(c08CloneRing(ring0), encs[outsider]), scope, sig0)
			func() {
				defer func() { _ = recover() }()
				add("ring-negate", "signer", "signer key negated", c08Reject, msg0, repl(mine, groups.Enc(g.point().Neg(g.point().Mul(g.scalarFromBig(x), nil)))), scope, sig0)
			}()
			// scope
			if linkable {
				add("scope-changed", "extended", "other scope", c08Reject, msg0, ring0, c08Cat(scope, []byte{0}), sig0)
				add("scope-changed", "other", "other scope", c08Reject, msg0, ring0, []byte("another scope"), sig0)
				if len(scope) > 0 {
					add("scope-changed", "bitflip", "other scope", c08Reject, msg0, ring0, gen.FlipBit(scope, rng.IntN(8*len(scope))), sig0)
					add("scope-changed", "empty-non-nil", "other scope", c08Reject, msg0, ring0, []byte{}, sig0)
				}
				add("scope-changed", "nil", "linkable signature verified as unlinkable", c08Reject, msg0, ring0, nil, sig0)
			} else {
				add("scope-changed", "non-nil", "unlinkable signature verified as linkable", c08Reject, msg0, ring0, []byte("scope"), sig0)
				add("scope-changed", "empty-non-nil", "unlinkable signature verified as linkable", c08Reject, msg0, ring0, []byte{}, sig0)
			}
			// signature fields: scalars C0, S[0..n-1]
			field := func(f int) (int, int) { return f * g.sLen, (f + 1) * g.sLen }
			setField := func(f int, v []byte) []byte {
				s := c08Clone(sig0)
				a, _ := field(f)
				copy(s[a:a+g.sLen], v)
				return s
			}
			fname := func(f int) string {
				if f == 0 {
					return "C0"
				}
				if f-1 == mine {
					return "S[signer]"
				}
				return "S[other]"
			}
			fields := []int{0, 1 + mine}
			if n >= 2 && !light {
				fields = append(fields, 1+(mine+1+rng.IntN(n-1))%n)
			}
			extremes := func(nb int) []int {
				if light {
					return []int{0, nb - 1}
				}
				return []int{0, 7, nb - 8, nb - 1}
			}
			lim := new(big.Int).Lsh(big.NewInt(1), uint(8*g.sLen))
			for _, f := range fields {
				a, b := field(f)
				orig := sig0[a:b]
				sb := c08RandBits(rng, 8*g.sLen, 5)
				if light {
					sb = nil
				}
				for _, bit := range sb {
					m := gen.FlipBit(orig, bit)
					cl := g.classScalar(orig, m)
					dm := c08Reject
					if cl == "alias" {
						dm = c08Free
					}
					add("sig-bitflip-"+fname(f), fmt.Sprint(bit), "scalar "+cl, dm, msg0, ring0, scope, setField(f, m))
				}
				// extreme bits of the field, always
				for _, bit := range extremes(8 * g.sLen) {
					add("sig-bitflip-"+fname(f), fmt.Sprint(bit), "scalar different", c08Reject, msg0, ring0, scope, setField(f, gen.FlipBit(orig, bit)))
				}
				v := g.scalarInt(orig)
				if w := new(big.Int).Add(v, g.q); w.Cmp(lim) < 0 {
					add("sig-scalar+q-"+fname(f), "", "same residue, other encoding", c08Free, msg0, ring0, scope, setField(f, g.scalarBytes(w)))
				}
				add("sig-scalar+1-"+fname(f), "", "scalar different", c08Reject, msg0, ring0, scope, setField(f, g.scalarBytes(new(big.Int).Mod(new(big.Int).Add(v, big.NewInt(1)), g.q))))
				if v.Sign() != 0 {
					add("sig-scalar-zero-"+fname(f), "", "scalar different", c08Reject, msg0, ring0, scope, setField(f, make([]byte, g.sLen)))
				}
			}
			if n >= 2 {
				i, j := 1+mine, 1+(mine+1)%n
				ai, bi := field(i)
				aj, bj := field(j)
				if !bytes.Equal(sig0[ai:bi], sig0[aj:bj]) {
					s := setField(i, sig0[aj:bj])
					copy(s[aj:bj], sig0[ai:bi])
					add("sig-swap-S", "", "two responses exchanged", c08Reject, msg0, ring0, scope, s)
				}
			}
			add("sig-len", "-1", "truncated", c08Reject, msg0, ring0, scope, c08Clone(sig0[:len(sig0)-1]))
			add("sig-len", "empty", "truncated", c08Reject, msg0, ring0, scope, []byte{})
			add("sig-len", "one-field-short", "truncated", c08Reject, msg0, ring0, scope, c08Clone(sig0[:len(sig0)-g.sLen]))
			add("sig-trailing-byte", "", "same fields followed by a surplus byte", c08Free, msg0, ring0, scope, c08Cat(sig0, []byte{0}))
			if linkable {
				tOff := g.sLen * (n + 1)
				tag := sig0[tOff:]
				setTag := func(t []byte) []byte { return c08Cat(sig0[:tOff], t) }
				tagCase := func(class, pos string, t []byte) {
					if len(t) != g.pLen {
						return
					}
					cl, fl := g.classPoint(tag, t)
					dm := c08Reject
					switch cl {
					case "same":
						return
					case "alias":
						dm = c08Free
					}
					add(class, pos, "tag "+cl+fmt.Sprint(fl), dm, msg0, ring0, scope, setTag(t))
				}
				tb := c08RandBits(rng, 8*g.pLen, 6)
				if light {
					tb = nil
				}
				for _, bit := range tb {
					tagCase("sig-bitflip-Tag", fmt.Sprint(bit), gen.FlipBit(tag, bit))
				}
				for _, bit := range extremes(8 * g.pLen) {
					tagCase("sig-bitflip-Tag", fmt.Sprint(bit), gen.FlipBit(tag, bit))
				}
				tagCase("sig-Tag=other-key", "", tagOf(xs[outsider], scope))
				tagCase("sig-Tag=other-scope", "", tagOf(x, c08Cat(scope, []byte{1})))
				func() {
					defer func() { _ = recover() }()
					tagCase("sig-Tag=neutral", "", groups.Enc(g.point().Null()))
					tagCase("sig-Tag=base", "", groups.Enc(g.point().Base()))
					tagCase("sig-Tag=signer-key", "", ring0[mine])
					T := g.point()
					if T.UnmarshalBinary(tag) == nil {
						tagCase("sig-Tag-negated", "", groups.Enc(g.point().Neg(T)))
					}
				}()
				if g.isEd {
					if d := ref.C08EdDecode(tag); d.OnCurve {
						ks := []int{1, 2, 4, 1 + rng.IntN(7)}
						if light {
							ks = ks[2:]
						}
						for _, k := range ks {
							tagCase("ed/Tag+torsion", fmt.Sprint(k), ref.C08EdEncode(ref.C08EdAdd(d.P, c08Kit().tors[k])))
						}
					}
				}
			}
			for _, c := range cs {
				cd := fmt.Sprintf("%s|%s|%s", desc, c.class, c.pos)
				c := c
				_, o := verify(c.msg, c.ring, c.scope, c.sig)
				c08Judge(r, where, "anon.Verify", c.class, cd, true, c.demand, o, func() map[string]any {
					d := witS()
					rh := make([]string, len(c.ring))
					for i := range c.ring {
						rh[i] = mon.Hex(c.ring[i])
					}
					d["variant"], d["classification"] = c.pos, c.why
					d["mut_msg"], d["mut_ring"], d["mut_scope"], d["mut_sig"] = mon.Hex(c.msg), rh, c08ScopeStr(c.scope), mon.Hex(c.sig)
					return d
				})
				c08Sample(r, "ring/"+mode+"/"+c.class, func() any {
					return map[string]any{"scheme": "anon", "suite": sn, "n": n, "mine": mine, "mode": mode, "class": c.class, "variant": c.pos,
						"demand": []string{"accept", "reject", "recorded-only"}[c.demand], "classification": c.why, "accepted": o.accepted, "error": c08Short(o.err)}
				})
			}

			// ---- linkage relations
			if !linkable || (light && mine != rep%n) {
				continue
			}
			ks := ringIdx[mine]
			// same key, same scope, another message, another ring and position
			n2 := 1 + rng.IntN(8)
			p2 := rng.Perm(pool)
			var ring2 [][]byte
			for _, k := range p2 {
				if k != ks && len(ring2) < n2-1 {
					ring2 = append(ring2, encs[k])
				}
			}
			pos2 := rng.IntN(n2)
			ring2 = append(ring2[:pos2], append([][]byte{encs[ks]}, ring2[pos2:]...)...)
			msg2 := rng.Bytes(rng.IntN(100))
			relate := func(class string, wantEqual bool, msg []byte, ringE [][]byte, sc []byte, pos int, xx *big.Int, extra string) {
				s, o := sign(msg, ringE, sc, pos, xx)
				if !o.accepted {
					c08Judge(r, where, "anon.Sign", "honest/linkable", desc+"|"+class, true, c08Accept, o, witS)
					return
				}
				t, o := verify(msg, ringE, sc, s)
				c08Judge(r, where, "anon.Verify", "honest/linkable", desc+"|"+class, true, c08Accept, o, witS)
				if !o.accepted {
					return
				}
				c08Check(r, where, "anon.Verify", class, desc, bytes.Equal(t, tag0) == wantEqual, func() map[string]any {
					d := witS()
					rh := make([]string, len(ringE))
					for i := range ringE {
						rh[i] = mon.Hex(ringE[i])
					}
					d["tag"], d["other_tag"], d["other_ring"], d["other_scope"], d["other_msg"], d["other_pos"], d["other_sig"], d["relation"] =
						mon.Hex(tag0), mon.Hex(t), rh, c08ScopeStr(sc), mon.Hex(msg), pos, mon.Hex(s), extra
					return d
				})
			}
			relate("tag/same-key-same-scope=>equal", true, msg2, ring2, scope, pos2, x, fmt.Sprintf("same key at position %d of another ring of size %d, another message", pos2, n2))
			relate("tag/same-key-other-scope=>different", false, msg0, ring0, c08Cat(scope, []byte("'")), mine, x, "same key, ring, message; scope extended by one byte")
			if n >= 2 {
				o2 := (mine + 1) % n
				relate("tag/other-key-same-scope=>different", false, msg0, ring0, scope, o2, xs[ringIdx[o2]], "neighbouring ring member signs in the same scope")
			} else {
				relate("tag/other-key-same-scope=>different", false, msg0, [][]byte{encs[outsider]}, scope, 0, xs[outsider], "another key signs in the same scope")
			}
		}
	}
}
