package main

// C14 helper: the harness's own predicate trees (AST), from which fresh
// proof.Predicate objects are built for every prover/verifier, the ground-truth
// evaluator (is a branch satisfied by an assignment, decided in the group), the
// model of the transcript layout (which bytes of a proof are which commitment /
// sub-challenge / response) and the transcript assembler used by the explicit
// cheating provers (simulators).

import (
	"crypto/cipher"
	"fmt"
	"sort"
	"strings"

	"go.dedis.ch/kyber/v4"
	"go.dedis.ch/kyber/v4/group/edwards25519"
	"go.dedis.ch/kyber/v4/group/p256"
	"go.dedis.ch/kyber/v4/pairing/bn256"
	"go.dedis.ch/kyber/v4/proof"

	"verif/internal/gen"
	"verif/internal/mon"
)

// ---------------------------------------------------------------- suites

// c14RandSuite gives a suite a harness-seeded RandomStream (P-256 and BN256
// have no WithRand constructor for a group-carrying suite).
type c14RandSuite struct {
	proof.Suite
	rs cipher.Stream
}

func (s *c14RandSuite) RandomStream() cipher.Stream { return s.rs }

type c14Env struct {
	name string
	mk   func(rs cipher.Stream) proof.Suite
}

func c14Envs() []*c14Env {
	return []*c14Env{
		{"ed25519", func(rs cipher.Stream) proof.Suite { return edwards25519.NewBlakeSHA256Ed25519WithRand(rs) }},
		{"p256", func(rs cipher.Stream) proof.Suite { return &c14RandSuite{p256.NewBlakeSHA256P256(), rs} }},
		{"bn256.G1", func(rs cipher.Stream) proof.Suite { return &c14RandSuite{bn256.NewSuiteG1(), rs} }},
	}
}

func c14SelectEnvs(filter string) []*c14Env {
	all := c14Envs()
	if filter == "" {
		return all
	}
	var out []*c14Env
	for _, e := range all {
		for _, f := range strings.Split(filter, ",") {
			if f != "" && strings.Contains(e.name, f) {
				out = append(out, e)
				break
			}
		}
	}
	return out
}

// ---------------------------------------------------------------- AST

const (
	c14Rep = 'r'
	c14And = 'a'
	c14Or  = 'o'
)

type c14Node struct {
	kind byte
	P    string   // rep: public point name
	S, B []string // rep: scalar / base names of the terms
	sub  []*c14Node
}

func (n *c14Node) String() string { return n.str(0) }

func (n *c14Node) str(prec int) string {
	switch n.kind {
	case c14Rep:
		var b strings.Builder
		b.WriteString(n.P + "=")
		for i := range n.S {
			if i > 0 {
				b.WriteString("+")
			}
			b.WriteString(n.S[i] + "*" + n.B[i])
		}
		return b.String()
	case c14And:
		var p []string
		for _, s := range n.sub {
			p = append(p, s.str(2))
		}
		return "And(" + strings.Join(p, ", ") + ")"
	}
	var p []string
	for _, s := range n.sub {
		p = append(p, s.str(1))
	}
	return "Or(" + strings.Join(p, ", ") + ")"
}

func (n *c14Node) clone() *c14Node {
	c := &c14Node{kind: n.kind, P: n.P, S: append([]string(nil), n.S...), B: append([]string(nil), n.B...)}
	for _, s := range n.sub {
		c.sub = append(c.sub, s.clone())
	}
	return c
}

// reps returns the Rep leaves below n in depth-first order (= commitment order).
func (n *c14Node) reps() []*c14Node {
	if n.kind == c14Rep {
		return []*c14Node{n}
	}
	var out []*c14Node
	for _, s := range n.sub {
		out = append(out, s.reps()...)
	}
	return out
}

// scopes returns the And-scopes (Or-domains): maximal Or-free subtrees, in depth-first order.
func (n *c14Node) scopes() []*c14Node {
	if n.kind != c14Or {
		return []*c14Node{n}
	}
	var out []*c14Node
	for _, s := range n.sub {
		out = append(out, s.scopes()...)
	}
	return out
}

// c14Step is one Or-branch choice on the way from the root to a scope.
type c14Step struct {
	or  *c14Node
	idx int
}

// paths returns, for every scope (same order as scopes()), the Or-choices leading to it.
func (n *c14Node) paths() [][]c14Step {
	var out [][]c14Step
	var rec func(m *c14Node, cur []c14Step)
	rec = func(m *c14Node, cur []c14Step) {
		if m.kind != c14Or {
			out = append(out, append([]c14Step(nil), cur...))
			return
		}
		for i, s := range m.sub {
			rec(s, append(cur, c14Step{m, i}))
		}
	}
	rec(n, nil)
	return out
}

// scalarOrder returns the scalar variable names in first-occurrence depth-first order
// (the order in which kyber enumerates them, hence the order of responses).
func (n *c14Node) scalarOrder() map[string]int {
	idx := map[string]int{}
	for _, r := range n.reps() {
		for _, s := range r.S {
			if _, ok := idx[s]; !ok {
				idx[s] = len(idx)
			}
		}
	}
	return idx
}

// pointNames returns all point names (P and bases) used below n, sorted.
func (n *c14Node) pointNames() []string {
	seen := map[string]bool{}
	for _, r := range n.reps() {
		seen[r.P] = true
		for _, b := range r.B {
			seen[b] = true
		}
	}
	var out []string
	for k := range seen {
		out = append(out, k)
	}
	sort.Strings(out)
	return out
}

// scalarNames returns the scalar names used below n, in global order of root.
func (n *c14Node) scalarNames(order map[string]int) []string {
	seen := map[string]bool{}
	var out []string
	for _, r := range n.reps() {
		for _, s := range r.S {
			if !seen[s] {
				seen[s] = true
				out = append(out, s)
			}
		}
	}
	sort.Slice(out, func(i, j int) bool { return order[out[i]] < order[out[j]] })
	return out
}

// build makes fresh proof.Predicate objects; ors maps the harness Or nodes to them.
func (n *c14Node) build(ors map[*c14Node]proof.Predicate) proof.Predicate {
	switch n.kind {
	case c14Rep:
		var sb []string
		for i := range n.S {
			sb = append(sb, n.S[i], n.B[i])
		}
		return proof.Rep(n.P, sb...)
	case c14And:
		var sub []proof.Predicate
		for _, s := range n.sub {
			sub = append(sub, s.build(ors))
		}
		return proof.And(sub...)
	}
	var sub []proof.Predicate
	for _, s := range n.sub {
		sub = append(sub, s.build(ors))
	}
	p := proof.Or(sub...)
	if ors != nil {
		ors[n] = p
	}
	return p
}

// c14Build returns a fresh predicate and the choice map selecting the given path.
func c14Build(root *c14Node, path []c14Step) (proof.Predicate, map[proof.Predicate]int) {
	ors := map[*c14Node]proof.Predicate{}
	p := root.build(ors)
	ch := map[proof.Predicate]int{}
	for _, st := range path {
		ch[ors[st.or]] = st.idx
	}
	return p, ch
}

// c14Eval decides in the group whether the Or-free subtree n is satisfied by (sec, pts).
func c14Eval(g kyber.Group, n *c14Node, sec map[string]kyber.Scalar, pts map[string]kyber.Point) bool {
	for _, r := range n.reps() {
		if !c14EvalRep(g, r, sec, pts) {
			return false
		}
	}
	return true
}

func c14EvalRep(g kyber.Group, r *c14Node, sec map[string]kyber.Scalar, pts map[string]kyber.Point) bool {
	acc := g.Point().Null()
	for i := range r.S {
		t := g.Point().Mul(sec[r.S[i]], pts[r.B[i]])
		acc = g.Point().Add(acc, t)
	}
	return acc.Equal(pts[r.P])
}

func c14RepValue(g kyber.Group, r *c14Node, sec map[string]kyber.Scalar, pts map[string]kyber.Point) kyber.Point {
	acc := g.Point().Null()
	for i := range r.S {
		acc = g.Point().Add(acc, g.Point().Mul(sec[r.S[i]], pts[r.B[i]]))
	}
	return acc
}

// ---------------------------------------------------------------- copies

func c14Enc(m kyber.Marshaling) []byte {
	b, err := m.MarshalBinary()
	if err != nil {
		panic("harness: MarshalBinary: " + err.Error())
	}
	return append([]byte(nil), b...)
}

func c14CopyPoint(g kyber.Group, p kyber.Point) kyber.Point {
	q := g.Point()
	if err := q.UnmarshalBinary(c14Enc(p)); err != nil {
		panic("harness: point copy by encode/decode failed: " + err.Error())
	}
	return q
}

func c14CopyScalar(g kyber.Group, s kyber.Scalar) kyber.Scalar {
	q := g.Scalar()
	if err := q.UnmarshalBinary(c14Enc(s)); err != nil {
		panic("harness: scalar copy by encode/decode failed: " + err.Error())
	}
	return q
}

func c14CopyPoints(g kyber.Group, m map[string]kyber.Point) map[string]kyber.Point {
	out := make(map[string]kyber.Point, len(m))
	for k, v := range m {
		out[k] = c14CopyPoint(g, v)
	}
	return out
}

func c14CopyScalars(g kyber.Group, m map[string]kyber.Scalar) map[string]kyber.Scalar {
	out := make(map[string]kyber.Scalar, len(m))
	for k, v := range m {
		out[k] = c14CopyScalar(g, v)
	}
	return out
}

func c14HexPoints(m map[string]kyber.Point) map[string]string {
	out := map[string]string{}
	for k, v := range m {
		out[k] = mon.Hex(c14Enc(v))
	}
	return out
}

func c14HexScalars(m map[string]kyber.Scalar) map[string]string {
	out := map[string]string{}
	for k, v := range m {
		out[k] = mon.Hex(c14Enc(v))
	}
	return out
}

// ---------------------------------------------------------------- generator

// c14Tree is one generated statement with its assignment.
type c14Tree struct {
	root   *c14Node
	scopes []*c14Node
	paths  [][]c14Step
	sec    map[string]kyber.Scalar
	pts    map[string]kyber.Point
	truth  []bool // ground truth per scope under sec (evaluated, not intended)
	feat   []string
	nb     int
}

type c14GenOpt struct {
	maxBranches, maxReps, maxTerms int
	allowNestedOr                  bool
}

func c14RandScalar(g kyber.Group, rng *gen.Rng) kyber.Scalar {
	return g.Scalar().Pick(rng.Stream())
}

func c14NonZeroScalar(g kyber.Group, rng *gen.Rng) kyber.Scalar {
	for {
		s := c14RandScalar(g, rng)
		if !s.Equal(g.Scalar().Zero()) {
			return s
		}
	}
}

// c14Gen generates a tree with at least one satisfied scope.
func c14Gen(g kyber.Group, rng *gen.Rng, opt c14GenOpt) *c14Tree {
	for {
		if t := c14GenOnce(g, rng, opt); t != nil {
			return t
		}
	}
}

func c14GenOnce(g kyber.Group, rng *gen.Rng, opt c14GenOpt) *c14Tree {
	feat := map[string]bool{}
	nb := 1 + rng.IntN(opt.maxBranches)
	ns := 1 + rng.IntN(4)
	nB := 1 + rng.IntN(3)
	t := &c14Tree{sec: map[string]kyber.Scalar{}, pts: map[string]kyber.Point{}, nb: nb}
	zero, one := g.Scalar().Zero(), g.Scalar().One()
	for i := 0; i < ns; i++ {
		var x kyber.Scalar
		switch rng.IntN(16) {
		case 0:
			x = zero.Clone()
			feat["secret-zero"] = true
		case 1:
			x = one.Clone()
			feat["secret-one"] = true
		case 2:
			x = g.Scalar().Neg(one)
			feat["secret-minus-one"] = true
		default:
			x = c14RandScalar(g, rng)
		}
		t.sec[fmt.Sprintf("x%d", i)] = x
	}
	for i := 0; i < nB; i++ {
		var p kyber.Point
		switch {
		case i == 0 && rng.IntN(2) == 0:
			p = g.Point().Base()
		case i > 0 && rng.IntN(8) == 0:
			p = c14CopyPoint(g, t.pts[fmt.Sprintf("B%d", i-1)])
			feat["two-base-names-one-point"] = true
		case rng.IntN(3) == 0:
			p = g.Point().Pick(rng.Stream())
		default:
			p = g.Point().Mul(c14NonZeroScalar(g, rng), nil)
		}
		t.pts[fmt.Sprintf("B%d", i)] = p
	}
	choice := rng.IntN(nb)
	var branches []*c14Node
	var allReps []*c14Node
	var repTrue []bool
	pn := 0
	for b := 0; b < nb; b++ {
		nt := 1 + rng.IntN(opt.maxReps)
		wantTrue := b == choice || rng.IntN(2) == 0
		var reps []*c14Node
		falsify := -1
		if !wantTrue {
			falsify = rng.IntN(nt)
		}
		for k := 0; k < nt; k++ {
			// sometimes repeat, verbatim, a Rep that already occurs in an earlier branch
			if b > 0 && len(allReps) > 0 && rng.IntN(10) == 0 {
				j := rng.IntN(len(allReps))
				if repTrue[j] == wantTrue || (!wantTrue && k != falsify) {
					reps = append(reps, allReps[j].clone())
					feat["rep-repeated-across-branches"] = true
					continue
				}
			}
			r := &c14Node{kind: c14Rep, P: fmt.Sprintf("P%d", pn)}
			pn++
			nterm := 1 + rng.IntN(opt.maxTerms)
			for j := 0; j < nterm; j++ {
				r.S = append(r.S, fmt.Sprintf("x%d", rng.IntN(ns)))
				bn := fmt.Sprintf("B%d", rng.IntN(nB))
				if pn > 1 && rng.IntN(10) == 0 {
					bn = fmt.Sprintf("P%d", rng.IntN(pn-1)) // an earlier public point as base
					feat["public-point-as-base"] = true
				}
				r.B = append(r.B, bn)
			}
			v := c14RepValue(g, r, t.sec, t.pts)
			isTrue := true
			if !wantTrue && (k == falsify || rng.IntN(3) == 0) {
				isTrue = false
				if rng.IntN(2) == 0 {
					v = g.Point().Add(v, g.Point().Mul(c14NonZeroScalar(g, rng), nil))
				} else {
					v = g.Point().Mul(c14NonZeroScalar(g, rng), nil)
				}
			}
			t.pts[r.P] = v
			reps = append(reps, r)
			allReps = append(allReps, r)
			repTrue = append(repTrue, isTrue)
		}
		var br *c14Node
		switch {
		case len(reps) == 1 && rng.IntN(2) == 0:
			br = reps[0]
			feat["branch-bare-rep"] = true
		case len(reps) >= 3 && rng.IntN(4) == 0:
			// nested And: And(And(r0,r1), r2, ...) or And(r0, And(r1, ...))
			if rng.IntN(2) == 0 {
				inner := &c14Node{kind: c14And, sub: reps[:2]}
				br = &c14Node{kind: c14And, sub: append([]*c14Node{inner}, reps[2:]...)}
			} else {
				inner := &c14Node{kind: c14And, sub: reps[1:]}
				br = &c14Node{kind: c14And, sub: []*c14Node{reps[0], inner}}
			}
			feat["nested-and"] = true
		default:
			br = &c14Node{kind: c14And, sub: reps}
			if len(reps) == 1 {
				feat["and-of-one"] = true
			}
		}
		branches = append(branches, br)
	}
	switch {
	case nb == 1 && rng.IntN(2) == 0:
		t.root = branches[0]
		feat["no-or"] = true
	case nb == 1:
		t.root = &c14Node{kind: c14Or, sub: branches}
		feat["or-of-one"] = true
	case nb >= 3 && opt.allowNestedOr && rng.IntN(6) == 0:
		if rng.IntN(2) == 0 {
			inner := &c14Node{kind: c14Or, sub: branches[1:]}
			t.root = &c14Node{kind: c14Or, sub: []*c14Node{branches[0], inner}}
		} else {
			inner := &c14Node{kind: c14Or, sub: branches[:2]}
			t.root = &c14Node{kind: c14Or, sub: append([]*c14Node{inner}, branches[2:]...)}
		}
		feat["nested-or"] = true
	default:
		t.root = &c14Node{kind: c14Or, sub: branches}
	}
	t.scopes = t.root.scopes()
	t.paths = t.root.paths()
	anyTrue := false
	for _, s := range t.scopes {
		v := c14Eval(g, s, t.sec, t.pts)
		t.truth = append(t.truth, v)
		anyTrue = anyTrue || v
	}
	if !anyTrue {
		return nil
	}
	// sharing features
	order := t.root.scalarOrder()
	inBranch := map[string]int{}
	for _, s := range t.scopes {
		cnt := map[string]int{}
		for _, r := range s.reps() {
			seen := map[string]bool{}
			for _, x := range r.S {
				if seen[x] {
					feat["scalar-twice-in-one-rep"] = true
				}
				seen[x] = true
			}
			for x := range seen {
				cnt[x]++
			}
		}
		for x, c := range cnt {
			if c > 1 {
				feat["scalar-shared-between-and-terms"] = true
			}
			inBranch[x]++
		}
		if len(s.scalarNames(order)) < len(order) {
			feat["scope-uses-subset-of-variables"] = true
		}
	}
	for _, c := range inBranch {
		if c > 1 {
			feat["scalar-shared-across-branches"] = true
		}
	}
	nTrue := 0
	for _, v := range t.truth {
		if v {
			nTrue++
		}
	}
	if nTrue > 1 {
		feat["several-true-branches"] = true
	}
	if nTrue < len(t.truth) {
		feat["some-false-branch"] = true
	}
	for k := range feat {
		t.feat = append(t.feat, k)
	}
	sort.Strings(t.feat)
	return t
}

// simple reports whether the statement is a plain Schnorr statement P=x*B.
func (t *c14Tree) simple() bool {
	reps := t.root.reps()
	return len(reps) == 1 && len(reps[0].S) == 1
}

// ---------------------------------------------------------------- transcript layout

type c14Field struct {
	kind  string // "commit", "subch", "resp"
	off   int
	n     int
	scope int // index of the scope (commit/resp), -1 for sub-challenges
	or    *c14Node
	idx   int    // commit: rep index (global); subch: branch index in its Or; resp: index in the scope's variable list
	name  string // commit: P name; resp: scalar name
}

// c14Layout models the byte layout of a HashProve transcript of root.
func c14Layout(root *c14Node, pointLen, scalarLen int) (fields []c14Field, total int) {
	order := root.scalarOrder()
	scopes := root.scopes()
	scopeIdx := map[*c14Node]int{}
	for i, s := range scopes {
		scopeIdx[s] = i
	}
	off := 0
	ri := 0
	for si, s := range scopes {
		for _, r := range s.reps() {
			fields = append(fields, c14Field{kind: "commit", off: off, n: pointLen, scope: si, idx: ri, name: r.P})
			off += pointLen
			ri++
		}
	}
	var walk func(n *c14Node)
	walk = func(n *c14Node) {
		if n.kind == c14Or {
			if len(n.sub) > 1 {
				for i := range n.sub {
					fields = append(fields, c14Field{kind: "subch", off: off, n: scalarLen, scope: -1, or: n, idx: i})
					off += scalarLen
				}
			}
			for _, s := range n.sub {
				walk(s)
			}
			return
		}
		for i, x := range n.scalarNames(order) {
			fields = append(fields, c14Field{kind: "resp", off: off, n: scalarLen, scope: scopeIdx[n], idx: i, name: x})
			off += scalarLen
		}
	}
	walk(root)
	return fields, off
}

// c14Forge assembles a transcript without knowing any secret: every scope is
// simulated (responses chosen at random, commitments computed backwards from
// the sub-challenge). The sub-challenges of every Or sum to the challenge handed
// down from above when sumOK, and are unrelated random values otherwise. c is the
// root challenge the forger bets on.
func c14Forge(g kyber.Group, root *c14Node, pts map[string]kyber.Point, c kyber.Scalar, sumOK bool, rng *gen.Rng) []byte {
	order := root.scalarOrder()
	commits := map[*c14Node][]byte{}
	var tail []byte
	var walk func(n *c14Node, c kyber.Scalar)
	walk = func(n *c14Node, c kyber.Scalar) {
		if n.kind == c14Or {
			ci := make([]kyber.Scalar, len(n.sub))
			if len(n.sub) == 1 {
				ci[0] = c
			} else {
				rest := g.Scalar().Set(c)
				for i := range n.sub {
					if i == len(n.sub)-1 && sumOK {
						ci[i] = rest
					} else {
						ci[i] = c14RandScalar(g, rng)
						rest = g.Scalar().Sub(rest, ci[i])
					}
				}
				for i := range ci {
					tail = append(tail, c14Enc(ci[i])...)
				}
			}
			for i, s := range n.sub {
				walk(s, ci[i])
			}
			return
		}
		resp := map[string]kyber.Scalar{}
		for _, x := range n.scalarNames(order) {
			resp[x] = c14RandScalar(g, rng)
			tail = append(tail, c14Enc(resp[x])...)
		}
		for _, r := range n.reps() {
			v := g.Point().Mul(c, pts[r.P])
			for i := range r.S {
				v = g.Point().Add(v, g.Point().Mul(resp[r.S[i]], pts[r.B[i]]))
			}
			commits[r] = c14Enc(v)
		}
	}
	walk(root, c)
	var out []byte
	for _, r := range root.reps() {
		out = append(out, commits[r]...)
	}
	return append(out, tail...)
}

// ---------------------------------------------------------------- reference judgement of altered transcripts

// c14CommitLen is the length of the commitment block of a transcript of root.
func c14CommitLen(g kyber.Group, root *c14Node) int { return len(root.reps()) * g.PointLen() }

// c14CommitsEqual reports whether the altered commitment block still decodes to
// the same commitments (only then is an alteration not a semantic change).
func c14CommitsEqual(g kyber.Group, root *c14Node, oldB, newB []byte) bool {
	pl := g.PointLen()
	n := len(root.reps())
	if len(newB) < n*pl || len(oldB) < n*pl {
		return false
	}
	for k := 0; k < n; k++ {
		o, v := g.Point(), g.Point()
		if o.UnmarshalBinary(oldB[k*pl:(k+1)*pl]) != nil {
			return false
		}
		if v.UnmarshalBinary(newB[k*pl:(k+1)*pl]) != nil {
			return false
		}
		if !o.Equal(v) {
			return false
		}
	}
	return true
}

// c14ChallengeMatters reports whether a transcript that is valid for challenge c
// must become invalid for any other challenge handed to node n: true below a
// real Or (the sub-challenges must sum to c) and for a scope containing a Rep
// whose public point is not the identity. (For P = identity the verification
// equation V = c*P + sum r*B does not involve c at all.)
func c14ChallengeMatters(g kyber.Group, n *c14Node, pts map[string]kyber.Point) bool {
	if n.kind == c14Or {
		if len(n.sub) > 1 {
			return true
		}
		return c14ChallengeMatters(g, n.sub[0], pts)
	}
	null := g.Point().Null()
	for _, r := range n.reps() {
		if !pts[r.P].Equal(null) {
			return true
		}
	}
	return false
}

// c14TailValid is a differential reference verifier for the part of a
// transcript that follows the commitments (sub-challenges and responses).
// Given that oldT belongs to an accepted transcript with the same commitments
// and the same root challenge, newT is valid iff every field decodes, the
// sub-challenge deltas of every Or sum to the delta handed down, and for every
// Rep  dc*P + sum_t (r'_t - r_t)*B_t  is the identity. Group operations only.
func c14TailValid(g kyber.Group, root *c14Node, pts map[string]kyber.Point, oldT, newT []byte) bool {
	pl, sl := g.PointLen(), g.ScalarLen()
	fields, total := c14Layout(root, pl, sl)
	nc := c14CommitLen(g, root)
	need := total - nc
	if len(oldT) < need || len(newT) < need {
		return false
	}
	type sk struct {
		or  *c14Node
		idx int
	}
	type rk struct {
		scope int
		name  string
	}
	dSub := map[sk]kyber.Scalar{}
	dResp := map[rk]kyber.Scalar{}
	for _, f := range fields {
		if f.kind == "commit" {
			continue
		}
		o, v := g.Scalar(), g.Scalar()
		if o.UnmarshalBinary(oldT[f.off-nc:f.off-nc+f.n]) != nil {
			return false
		}
		if v.UnmarshalBinary(newT[f.off-nc:f.off-nc+f.n]) != nil {
			return false
		}
		d := g.Scalar().Sub(v, o)
		if f.kind == "subch" {
			dSub[sk{f.or, f.idx}] = d
		} else {
			dResp[rk{f.scope, f.name}] = d
		}
	}
	scopeIdx := map[*c14Node]int{}
	for i, s := range root.scopes() {
		scopeIdx[s] = i
	}
	null := g.Point().Null()
	var walk func(n *c14Node, dc kyber.Scalar) bool
	walk = func(n *c14Node, dc kyber.Scalar) bool {
		if n.kind == c14Or {
			if len(n.sub) == 1 {
				return walk(n.sub[0], dc)
			}
			sum := g.Scalar().Zero()
			for i := range n.sub {
				sum = g.Scalar().Add(sum, dSub[sk{n, i}])
			}
			if !sum.Equal(dc) {
				return false
			}
			for i, s := range n.sub {
				if !walk(s, dSub[sk{n, i}]) {
					return false
				}
			}
			return true
		}
		si := scopeIdx[n]
		for _, r := range n.reps() {
			acc := g.Point().Mul(dc, pts[r.P])
			for t := range r.S {
				acc = g.Point().Add(acc, g.Point().Mul(dResp[rk{si, r.S[t]}], pts[r.B[t]]))
			}
			if !acc.Equal(null) {
				return false
			}
		}
		return true
	}
	return walk(root, g.Scalar().Zero())
}

// c14NonCanonicalScalar reports whether the part of a transcript that follows the
// commitments contains a scalar field that decodes but is not the encoding the
// library itself produces for that value (e.g. an unreduced Ed25519 scalar).
func c14NonCanonicalScalar(g kyber.Group, root *c14Node, tail []byte) bool {
	fields, _ := c14Layout(root, g.PointLen(), g.ScalarLen())
	nc := c14CommitLen(g, root)
	for _, f := range fields {
		if f.kind == "commit" || f.off-nc+f.n > len(tail) {
			continue
		}
		b := tail[f.off-nc : f.off-nc+f.n]
		s := g.Scalar()
		if s.UnmarshalBinary(b) != nil {
			continue
		}
		if string(c14Enc(s)) != string(b) {
			return true
		}
	}
	return false
}
