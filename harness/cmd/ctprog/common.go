package main

// Common part of the transcript: only packages that exist under -tags
// constantTime (mod.Int, compatible, Ed25519, CIRCL BLS12-381, Shamir
// polynomials, Schnorr/EdDSA/BLS signatures with seeded randomness, XOFs,
// util/random).

import (
	"crypto/cipher"
	"fmt"
	"math/big"

	"go.dedis.ch/kyber/v4"
	"go.dedis.ch/kyber/v4/compatible"
	"go.dedis.ch/kyber/v4/compatible/compatiblemod"
	"go.dedis.ch/kyber/v4/group/edwards25519"
	"go.dedis.ch/kyber/v4/group/mod"
	"go.dedis.ch/kyber/v4/pairing"
	"go.dedis.ch/kyber/v4/pairing/bls12381/circl"
	"go.dedis.ch/kyber/v4/share"
	"go.dedis.ch/kyber/v4/sign/bls"
	"go.dedis.ch/kyber/v4/sign/eddsa"
	"go.dedis.ch/kyber/v4/sign/schnorr"
	"go.dedis.ch/kyber/v4/util/key"
	"go.dedis.ch/kyber/v4/util/random"
	"go.dedis.ch/kyber/v4/xof/blake2xb"
	"go.dedis.ch/kyber/v4/xof/blake2xs"
	"go.dedis.ch/kyber/v4/xof/keccak"

	"verif/internal/gen"
)

func common(t *T) {
	modIntSection(t)
	compatSection(t)
	groupProgs(t, "ed25519", nil, edwards25519.NewBlakeSHA256Ed25519(), false, t.n(6, 120), 36)
	edExtraSection(t)
	groupProgs(t, "circl", circl.NewSuite(), nil, false, t.n(3, 60), 30)
	shamirSection(t, "ed25519", edwards25519.NewBlakeSHA256Ed25519())
	shamirSection(t, "circl.G1", circl.NewSuite().G1())
	signSection(t)
	blsSection(t, "circl", circl.NewSuite())
	xofSection(t)
	randomSection(t)
}

// ---------------------------------------------------------------- mod.Int

type modSpec struct {
	name  string
	q     string
	le    bool
	prime bool
}

var modSpecs = []modSpec{
	{"m251-be", "251", false, true},
	{"m65521-le", "65521", true, true},
	{"m65535-be", "65535", false, false},
	{"m2p61m1-be", "2305843009213693951", false, true},
	{"m2p64m59-be", "18446744073709551557", false, true},
	{"m2p89m1-le", "618970019642690137449562111", true, true},
	{"m2p127m1-le", "170141183460469231731687303715884105727", true, true},
	{"m2p128m159-be", "340282366920938463463374607431768211297", false, true},
	{"m25519-le", "57896044618658097711785492504343953926634992332820282019728792003956564819949", true, true},
	{"edL-le", "7237005577332262213973186563042994240857116359379907606001950938285454250989", true, true},
	{"edL-be", "7237005577332262213973186563042994240857116359379907606001950938285454250989", false, true},
	{"p256n-be", "115792089210356248762697446949407573529996955224135760342422259061068512044369", false, true},
	{"bn256n-be", "65000549695646603732796438742359905742570406053903786389881062969044166799969", false, true},
	{"bls381r-le", "52435875175126190479447740508185965837690552500527637822603658699938581184513", true, true},
	{"m2p521m1-be", "6864797660130609714981900799081393217269435300143305409394463459185543183397656052122559640661454554977296311391480858037121987999716643812574028291115057151", false, true},
	// the sizes for which compatible/bigmod has assembly (switched off by -tags purego)
	{"m2p1024m105-be", "2^1024-105", false, true},
	{"m2p1536m3453-le", "2^1536-3453", true, true},
	{"m2p2048m1557-be", "2^2048-1557", false, true},
}

// specQ parses the modulus of a spec: a decimal number or "2^a-b".
func specQ(sp modSpec) *big.Int {
	var a uint
	var b int64
	if n, _ := fmt.Sscanf(sp.q, "2^%d-%d", &a, &b); n == 2 {
		q := new(big.Int).Lsh(big.NewInt(1), a)
		return q.Sub(q, big.NewInt(b))
	}
	q, ok := new(big.Int).SetString(sp.q, 10)
	if !ok {
		panic("bad modulus " + sp.q)
	}
	return q
}

func modIntSection(t *T) {
	for _, sp := range modSpecs {
		q := specQ(sp)
		for i := 0; i < t.n(2, 40); i++ {
			modIntProg(t, sp, q, t.rng("modint/"+sp.name, i))
		}
	}
}

func modIntProg(t *T, sp modSpec, q *big.Int, rng *gen.Rng) {
	M := compatiblemod.FromBigInt(q)
	bo := kyber.BigEndian
	if sp.le {
		bo = kyber.LittleEndian
	}
	l := (q.BitLen() + 7) / 8
	edge := gen.Edge(q)
	fresh := func() *mod.Int { return mod.NewIntBytes(nil, M, bo) }
	e := func(i *mod.Int) string { return enc(i) }
	const nR = 4
	reg := make([]*mod.Int, nR)
	name := "modint"
	arg := func(f string, a ...any) string { return sp.name + "," + fmt.Sprintf(f, a...) }
	R := func(i int) string { return fmt.Sprintf("r%d@%s", i, fp(reg[i])) }
	for i := range reg {
		v := rng.EdgeOrRandom(edge, q, 140)
		i := i
		reg[i] = fresh()
		t.do(name+".SetBytes", arg("r%d=%s", i, v.Text(16)), false, func() string {
			s := fresh()
			s.SetBytes(orderBytes(s, v, l))
			reg[i] = s
			return e(s)
		})
	}
	isZero := func(i *mod.Int) bool { return !i.Nonzero() }
	for step := 0; step < 40; step++ {
		d, a, b := rng.IntN(nR), rng.IntN(nR), rng.IntN(nR)
		inpl := rng.IntN(4) == 0
		recv := func() *mod.Int {
			if inpl {
				return reg[d]
			}
			return fresh()
		}
		setres := func(s kyber.Scalar) string {
			reg[d] = s.(*mod.Int)
			return e(reg[d])
		}
		switch c := rng.IntN(30); {
		case c < 2:
			t.do(name+".Add", arg("r%d=%s,%s", d, R(a), R(b)), false, func() string { return setres(recv().Add(reg[a], reg[b])) })
		case c < 4:
			t.do(name+".Sub", arg("r%d=%s,%s", d, R(a), R(b)), false, func() string { return setres(recv().Sub(reg[a], reg[b])) })
		case c < 6:
			t.do(name+".Mul", arg("r%d=%s,%s", d, R(a), R(b)), false, func() string { return setres(recv().Mul(reg[a], reg[b])) })
		case c < 7:
			t.do(name+".Neg", arg("r%d=%s", d, R(a)), false, func() string { return setres(recv().Neg(reg[a])) })
		case c < 8:
			if !sp.prime || isZero(reg[a]) {
				t.do(name+".Neg", arg("r%d=%s", d, R(a)), false, func() string { return setres(recv().Neg(reg[a])) })
			} else {
				t.do(name+".Inv", arg("r%d=%s", d, R(a)), false, func() string { return setres(recv().Inv(reg[a])) })
			}
		case c < 9:
			if !sp.prime || isZero(reg[b]) {
				t.do(name+".Sub", arg("r%d=%s,%s", d, R(a), R(b)), false, func() string { return setres(recv().Sub(reg[a], reg[b])) })
			} else {
				t.do(name+".Div", arg("r%d=%s,%s", d, R(a), R(b)), false, func() string { return setres(recv().Div(reg[a], reg[b])) })
			}
		case c < 11:
			// exponent below the modulus
			ev := rng.EdgeOrRandom(edge, q, 100)
			t.do(name+".Exp", arg("r%d=%s^%s", d, R(a), ev.Text(16)), false, func() string {
				return setres(recv().Exp(reg[a], compatible.FromBigInt(ev, M)))
			})
		case c < 12:
			// exponent at or above the modulus ("not necessarily 0 <= e < M")
			ev := new(big.Int).Add(q, big.NewInt(int64(rng.IntN(1000))))
			if rng.IntN(2) == 0 {
				ev.Mul(ev, big.NewInt(int64(2+rng.IntN(5))))
			}
			wide := compatiblemod.FromBigInt(new(big.Int).Lsh(big.NewInt(1), uint(8*(l+2))+1))
			// query only (the result is not stored, so that a divergence here cannot leak into later steps)
			t.do(name+".Exp.big-exponent", arg("%s^%s", R(a), ev.Text(16)), false, func() string {
				return e(fresh().Exp(reg[a], compatible.FromBigInt(ev, wide)).(*mod.Int))
			})
		case c < 13:
			var v int64
			switch rng.IntN(5) {
			case 0:
				v = int64(rng.IntN(5)) - 2
			case 1:
				v = -1 << 63
			case 2:
				v = 1<<63 - 1
			default:
				v = int64(rng.Uint64() >> uint(1+rng.IntN(62)))
				if rng.IntN(2) == 0 {
					v = -v
				}
			}
			t.do(name+".SetInt64", arg("r%d=%d", d, v), false, func() string { return setres(fresh().SetInt64(v)) })
		case c < 14:
			v := rng.Uint64() >> uint(rng.IntN(64))
			t.do(name+".SetUint64", arg("r%d=%d", d, v), false, func() string { return setres(fresh().SetUint64(v)) })
		case c < 16:
			n := rng.IntN(2*l + 4)
			bs := rng.Bytes(n)
			switch rng.IntN(5) {
			case 0:
				for i := range bs {
					bs[i] = 0xff
				}
			case 1:
				for i := range bs {
					bs[i] = 0
				}
			}
			v := new(big.Int).SetBytes(bs)
			t.do(name+".SetBytes", arg("r%d=%s/%d", d, v.Text(16), n), false, func() string {
				s := fresh()
				return setres(s.SetBytes(orderBytes(s, v, n)))
			})
		case c < 17:
			seed := rng.Bytes(16)
			t.do(name+".Pick", arg("r%d,%x", d, seed), false, func() string { return setres(fresh().Pick(gen.StreamOf(seed))) })
		case c < 18:
			nv := rng.EdgeOrRandom(edge, q, 100)
			dv := rng.EdgeOrRandom(edge, q, 100)
			base := []int{10, 16}[rng.IntN(2)]
			ds := dv.Text(base)
			if !sp.prime || dv.Sign() == 0 || rng.IntN(3) == 0 {
				ds = ""
			}
			t.do(name+".SetString", arg("r%d=%s/%s,base%d", d, nv.Text(base), ds, base), false, func() string {
				s := fresh()
				if _, ok := s.SetString(nv.Text(base), ds, base); !ok {
					return "ERR"
				}
				return setres(s)
			})
		case c < 20:
			// UnmarshalBinary of in-range, boundary, out-of-range and wrong-length inputs
			var v *big.Int
			n := l
			switch rng.IntN(6) {
			case 0:
				v = new(big.Int).Set(q)
			case 1:
				v = new(big.Int).Add(q, big.NewInt(int64(1+rng.IntN(3))))
			case 2:
				v = new(big.Int).Sub(q, big.NewInt(1))
			case 3:
				v = new(big.Int).Lsh(big.NewInt(1), uint(8*l))
				v.Sub(v, big.NewInt(1))
			case 4:
				v = rng.Big(q)
				n = l + 1 - 2*rng.IntN(2)
			default:
				v = rng.Big(q)
			}
			if (v.BitLen()+7)/8 > n {
				v.SetInt64(int64(rng.IntN(200)))
			}
			t.do(name+".UnmarshalBinary", arg("r%d=%s/%d", d, v.Text(16), n), false, func() string {
				s := fresh()
				if n < 0 {
					return "ERR"
				}
				if err := s.UnmarshalBinary(orderBytes(s, v, n)); err != nil {
					return "ERR"
				}
				return setres(s)
			})
		case c < 23:
			// byte-order helpers on the value of a register
			var mn, mx int
			switch rng.IntN(9) {
			case 0:
				mn, mx = 0, 0
			case 1:
				mn, mx = l, l
			case 2:
				mn, mx = l, 0
			case 3:
				mn, mx = 0, l
			case 4:
				mn, mx = l+1+rng.IntN(8), 0
			case 5:
				mn = l + rng.IntN(4)
				mx = mn + rng.IntN(4)
			case 6:
				mn, mx = 32, 32
			case 7:
				mn = rng.IntN(l + 1)
				mx = mn + rng.IntN(l+1)
			default:
				mn = 1 + rng.IntN(l)
				mx = mn
			}
			which := "LittleEndian"
			if rng.IntN(2) == 0 {
				which = "BigEndian"
			}
			t.do(name+"."+which, arg("r%d,%d,%d,value=%s", a, mn, mx, e(reg[a])), true, func() string {
				if which == "BigEndian" {
					return hx(reg[a].BigEndian(mn, mx))
				}
				return hx(reg[a].LittleEndian(mn, mx))
			})
		case c < 24:
			// small values through the helpers with a window shorter than the modulus but long enough for the value
			v := int64(rng.IntN(256))
			mn := 1 + rng.IntN(l)
			which := "LittleEndian"
			if rng.IntN(2) == 0 {
				which = "BigEndian"
			}
			t.do(name+"."+which, arg("%d,%d,%d", v, mn, mn), true, func() string {
				s := fresh()
				s.SetInt64(v)
				if which == "BigEndian" {
					return hx(s.BigEndian(mn, mn))
				}
				return hx(s.LittleEndian(mn, mn))
			})
		case c < 26:
			t.do(name+".Cmp", arg("%s,%s", R(a), R(b)), false, func() string {
				return fmt.Sprint(reg[a].Cmp(reg[b]), reg[a].Equal(reg[b]), reg[b].Equal(reg[a]), reg[a].Nonzero(), reg[a].MarshalSize())
			})
		case c < 27:
			t.do(name+".SetClone", arg("r%d=%s", d, R(a)), false, func() string {
				x := fresh().Set(reg[a])
				y := reg[a].Clone()
				reg[d] = x.(*mod.Int)
				return e(reg[d]) + "," + enc(y) + "," + fmt.Sprint(x.Equal(y))
			})
		case c < 28:
			t.do(name+".ZeroOne", arg("r%d", d), false, func() string {
				z, o := fresh().Zero(), fresh().One()
				return enc(z) + "," + enc(o) + "," + fmt.Sprint(z.Equal(o))
			})
		case c < 29:
			v := rng.Uint64() >> uint(1+rng.IntN(63))
			vq := new(big.Int).SetUint64(v)
			if vq.Cmp(q) >= 0 {
				vq.Mod(vq, q)
			}
			t.do(name+".Int64", arg("%d", vq.Uint64()), false, func() string {
				s := fresh().SetUint64(vq.Uint64()).(*mod.Int)
				return fmt.Sprint(s.Int64(), s.Uint64())
			})
		default:
			t.do(name+".GroupOrder", arg("%s", R(a)), false, func() string {
				return reg[a].GroupOrder().ToBigInt().Text(16) + "," + fmt.Sprint(reg[a].ByteOrder() == kyber.LittleEndian)
			})
		}
	}
}

// ---------------------------------------------------------------- compatible.Int (values compared as integers)

func compatSection(t *T) {
	for _, sp := range modSpecs {
		if !sp.prime {
			continue
		}
		q := specQ(sp)
		M := compatiblemod.FromBigInt(q)
		edge := gen.Edge(q)
		rng := t.rng("compat/"+sp.name, 0)
		val := func(i *compatible.Int) string { return i.ToBigInt().Text(16) }
		for i := 0; i < t.n(4, 80); i++ {
			a, b := rng.EdgeOrRandom(edge, q, 140), rng.EdgeOrRandom(edge, q, 140)
			args := sp.name + "," + a.Text(16) + "," + b.Text(16)
			A := func() *compatible.Int { return compatible.FromBigInt(a, M) }
			B := func() *compatible.Int { return compatible.FromBigInt(b, M) }
			t.do("compat.AddSubMul", args, false, func() string {
				return val(new(compatible.Int).Add(A(), B(), M)) + "," + val(new(compatible.Int).Sub(A(), B(), M)) + "," + val(new(compatible.Int).Mul(A(), B(), M))
			})
			t.do("compat.Exp", args, false, func() string { return val(new(compatible.Int).Exp(A(), B(), M)) })
			if a.Sign() != 0 {
				t.do("compat.ModInverse", args, false, func() string { return val(new(compatible.Int).ModInverse(A(), M)) })
			}
			bs := rng.Bytes(rng.IntN(2*len(q.Bytes()) + 3))
			t.do("compat.SetBytesMod", sp.name+","+hx(bs), false, func() string {
				return val(new(compatible.Int).SetBytesMod(bs, M))
			})
			t.do("compat.Cmp", args, false, func() string {
				return fmt.Sprint(A().Cmp(B()), B().Cmp(A()), A().Cmp(A()), A().CmpGeqMod(M))
			})
		}
	}
}

// ---------------------------------------------------------------- Ed25519 extras

type edHasher interface {
	Hash(m []byte, dst string) kyber.Point
}

func edExtraSection(t *T) {
	suite := edwards25519.NewBlakeSHA256Ed25519()
	rng := t.rng("edextra", 0)
	for i := 0; i < t.n(12, 240); i++ {
		seed := rng.Bytes(32)
		t.do("ed25519.NewKeyAndSeedWithInput", hx(seed), false, func() string {
			s, buf, prefix := suite.NewKeyAndSeedWithInput(append([]byte(nil), seed...))
			return enc(s) + "," + hx(buf) + "," + hx(prefix) + "," + enc(suite.Point().Mul(s, nil))
		})
		t.do("ed25519.NewKey", hx(seed[:16]), false, func() string {
			s := suite.NewKey(gen.StreamOf(seed[:16]))
			return enc(s) + "," + enc(suite.Point().Mul(s, nil))
		})
		msg := rng.Bytes(rng.IntN(64))
		dst := "CTPROG-V01-CS02-with-edwards25519_XMD:SHA-512_ELL2_RO_"
		if rng.IntN(3) == 0 {
			dst = string(rng.Bytes(1 + rng.IntN(300)))
		}
		t.do("ed25519.Hash", fmt.Sprintf("%x,dstlen=%d", msg, len(dst)), false, func() string {
			return enc(suite.Point().(edHasher).Hash(msg, dst))
		})
		// non-reduced scalar through UnmarshalBinary
		raw := rng.Bytes(32)
		raw[31] &= 0x7f
		pseed := rng.Bytes(16)
		t.do("ed25519.Mul.nonreduced", hx(raw)+","+hx(pseed), false, func() string {
			s := suite.Scalar()
			if err := s.UnmarshalBinary(raw); err != nil {
				return "ERR"
			}
			P := suite.Point().Pick(gen.StreamOf(pseed))
			return enc(s) + "," + enc(suite.Point().Mul(s, P)) + "," + enc(suite.Point().Mul(s, nil))
		})
	}
}

// ---------------------------------------------------------------- Shamir

func shamirSection(t *T, name string, g kyber.Group) {
	rng := t.rng("shamir/"+name, 0)
	for i := 0; i < t.n(3, 60); i++ {
		n := 2 + rng.IntN(7)
		th := 1 + rng.IntN(n)
		seed := rng.Bytes(16)
		perm := rng.Perm(n)
		args := fmt.Sprintf("%s,t=%d,n=%d,%x", name, th, n, seed)
		var pri *share.PriPoly
		var shares []*share.PriShare
		var pub *share.PubPoly
		t.do("share.NewPriPoly", args, false, func() string {
			str := gen.StreamOf(seed)
			pri = share.NewPriPoly(g, uint32(th), g.Scalar().Pick(str), str)
			out := ""
			for _, c := range pri.Coefficients() {
				out += enc(c) + ","
			}
			return out + enc(pri.Secret())
		})
		if pri == nil {
			continue
		}
		t.do("share.Shares", args, false, func() string {
			shares = pri.Shares(uint32(n))
			out := ""
			for _, s := range shares {
				out += fmt.Sprintf("%d:%s,", s.I, enc(s.V))
			}
			return out
		})
		t.do("share.Commit", args, false, func() string {
			pub = pri.Commit(nil)
			_, cs := pub.Info()
			out := ""
			for _, c := range cs {
				out += enc(c) + ","
			}
			for _, s := range pub.Shares(uint32(n)) {
				out += fmt.Sprintf("%d:%s,", s.I, enc(s.V))
			}
			return out + enc(pub.Commit())
		})
		if shares == nil || pub == nil {
			continue
		}
		t.do("share.Check", args, false, func() string {
			out := ""
			for _, s := range shares {
				out += fmt.Sprint(pub.Check(s))
			}
			return out
		})
		sub := make([]*share.PriShare, 0, th)
		psub := make([]*share.PubShare, 0, th)
		pshares := pub.Shares(uint32(n))
		for _, j := range perm[:th] {
			sub = append(sub, &share.PriShare{I: shares[j].I, V: g.Scalar().Set(shares[j].V)})
			psub = append(psub, &share.PubShare{I: pshares[j].I, V: pshares[j].V.Clone()})
		}
		t.do("share.RecoverSecret", fmt.Sprintf("%s,subset=%v", args, perm[:th]), false, func() string {
			s, err := share.RecoverSecret(g, sub, uint32(th), uint32(n))
			if err != nil {
				return "ERR"
			}
			return enc(s)
		})
		t.do("share.RecoverCommit", fmt.Sprintf("%s,subset=%v", args, perm[:th]), false, func() string {
			s, err := share.RecoverCommit(g, psub, uint32(th), uint32(n))
			if err != nil {
				return "ERR"
			}
			return enc(s)
		})
		t.do("share.RecoverPriPoly", fmt.Sprintf("%s,subset=%v", args, perm[:th]), false, func() string {
			pp, err := share.RecoverPriPoly(g, sub, uint32(th), uint32(n))
			if err != nil {
				return "ERR"
			}
			out := ""
			for _, c := range pp.Coefficients() {
				out += enc(c) + ","
			}
			return out
		})
		t.do("share.PriPoly.AddMul", args, false, func() string {
			str := gen.StreamOf(append([]byte("second"), seed...))
			other := share.NewPriPoly(g, uint32(th), nil, str)
			sum, err := pri.Add(other)
			if err != nil {
				return "ERR"
			}
			prod := pri.Mul(other)
			return enc(sum.Secret()) + "," + enc(prod.Secret()) + "," + enc(prod.Eval(uint32(n)).V)
		})
	}
}

// ---------------------------------------------------------------- signatures

// schnorrOn signs with a key pair generated from a seeded stream over an arbitrary group.
func schnorrOn(t *T, name string, g kyber.Group) {
	rng := t.rng("schnorr/"+name, 0)
	for i := 0; i < t.n(3, 60); i++ {
		seed := rng.Bytes(16)
		msg := rng.Bytes(rng.IntN(100))
		t.do("schnorr."+name, hx(seed)+","+hx(msg), false, func() string {
			suite := seededSuite{g, gen.StreamOf(seed)}
			kp := key.NewKeyPair(suite)
			sig, err := schnorr.Sign(suite, kp.Private, msg)
			if err != nil {
				return "ERR"
			}
			bad := append([]byte(nil), sig...)
			bad[len(bad)-1] ^= 1
			return enc(kp.Private) + "," + enc(kp.Public) + "," + hx(sig) + "," + errs(schnorr.Verify(suite, kp.Public, msg, sig)) + "," + errs(schnorr.Verify(suite, kp.Public, msg, bad))
		})
	}
}

func signSection(t *T) {
	schnorrOn(t, "circl.G1", circl.NewSuite().G1())
	rng := t.rng("sign", 0)
	for i := 0; i < t.n(8, 160); i++ {
		seed := rng.Bytes(16)
		msg := rng.Bytes(rng.IntN(100))
		t.do("schnorr.ed25519", hx(seed)+","+hx(msg), false, func() string {
			suite := edwards25519.NewBlakeSHA256Ed25519WithRand(gen.StreamOf(seed))
			kp := key.NewKeyPair(suite)
			sig, err := schnorr.Sign(suite, kp.Private, msg)
			if err != nil {
				return "ERR"
			}
			bad := append([]byte(nil), sig...)
			bad[len(bad)-1] ^= 1
			return enc(kp.Private) + "," + enc(kp.Public) + "," + hx(sig) + "," + errs(schnorr.Verify(suite, kp.Public, msg, sig)) + "," + errs(schnorr.Verify(suite, kp.Public, msg, bad))
		})
		t.do("eddsa", hx(seed)+","+hx(msg), false, func() string {
			e := eddsa.NewEdDSA(gen.StreamOf(seed))
			sig, err := e.Sign(msg)
			if err != nil {
				return "ERR"
			}
			kb, _ := e.MarshalBinary()
			bad := append([]byte(nil), sig...)
			bad[0] ^= 1
			return hx(kb) + "," + hx(sig) + "," + errs(eddsa.Verify(e.Public, msg, sig)) + "," + errs(eddsa.Verify(e.Public, msg, bad))
		})
	}
}

func blsSection(t *T, name string, suite pairing.Suite) {
	rng := t.rng("bls/"+name, 0)
	for i := 0; i < t.n(3, 60); i++ {
		seed := rng.Bytes(16)
		msg := rng.Bytes(rng.IntN(100))
		for _, on := range []string{"G1", "G2"} {
			on := on
			t.do("bls."+name+".on"+on, hx(seed)+","+hx(msg), false, func() string {
				sch := bls.NewSchemeOnG1(suite)
				if on == "G2" {
					sch = bls.NewSchemeOnG2(suite)
				}
				priv, pub := sch.NewKeyPair(gen.StreamOf(seed))
				sig, err := sch.Sign(priv, msg)
				if err != nil {
					return "ERR"
				}
				other := append(append([]byte(nil), msg...), 1)
				return enc(priv) + "," + enc(pub) + "," + hx(sig) + "," + errs(sch.Verify(pub, msg, sig)) + "," + errs(sch.Verify(pub, other, sig))
			})
		}
	}
}

// ---------------------------------------------------------------- XOFs and util/random

func xofSection(t *T) {
	rng := t.rng("xof", 0)
	mk := map[string]func([]byte) kyber.XOF{"blake2xb": blake2xb.New, "blake2xs": blake2xs.New, "keccak": keccak.New}
	for _, name := range []string{"blake2xb", "blake2xs", "keccak"} {
		for i := 0; i < t.n(6, 120); i++ {
			seed := rng.Bytes(rng.IntN(200))
			extra := rng.Bytes(rng.IntN(300))
			n1, n2 := rng.IntN(700), rng.IntN(300)
			t.do("xof."+name, fmt.Sprintf("%x,%x,%d,%d", seed, extra, n1, n2), false, func() string {
				x := mk[name](seed)
				if _, err := x.Write(extra); err != nil {
					return "ERR"
				}
				a := make([]byte, n1)
				if _, err := x.Read(a); err != nil {
					return "ERR"
				}
				c := x.Clone()
				x.Reseed()
				if _, err := x.Write(extra); err != nil {
					return "ERR"
				}
				b := make([]byte, n2)
				x.XORKeyStream(b, b)
				cb := make([]byte, 32)
				if _, err := c.Read(cb); err != nil {
					return "ERR"
				}
				return hx(a) + "," + hx(b) + "," + hx(cb)
			})
		}
	}
}

func randomSection(t *T) {
	rng := t.rng("random", 0)
	for _, sp := range modSpecs {
		q := specQ(sp)
		M := compatiblemod.FromBigInt(q)
		for i := 0; i < t.n(2, 40); i++ {
			seed := rng.Bytes(16)
			t.do("random.Int", sp.name+","+hx(seed), false, func() string {
				var s cipher.Stream = gen.StreamOf(seed)
				return random.Int(M, s).ToBigInt().Text(16) + "," + random.Int(M, s).ToBigInt().Text(16)
			})
		}
	}
	for i := 0; i < t.n(20, 400); i++ {
		seed := rng.Bytes(16)
		bits := uint(1 + rng.IntN(600))
		exact := rng.IntN(2) == 0
		t.do("random.Bits", fmt.Sprintf("%x,%d,%v", seed, bits, exact), false, func() string {
			s := gen.StreamOf(seed)
			b := make([]byte, 17)
			random.Bytes(b, s)
			return hx(random.Bits(bits, exact, s)) + "," + hx(b)
		})
	}
}
