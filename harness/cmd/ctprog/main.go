// Command ctprog prints the transcript of a seeded deterministic computation
// over the kyber API, one line per step:
//
//	<part> <op> <operands> => <result>
//
// part is C (common: only packages that exist under -tags constantTime) or F
// (full library, absent from constantTime builds). The driver builds this
// program with several build-tag sets and compares the transcripts line by
// line (property C18 (iv)): C lines must be identical in every variant, F
// lines in every variant that has them.
//
// A result is the hex MarshalBinary encoding (or the literal value) of what
// the step produced, ERR for a returned error, PANIC for a panic the step is
// allowed to raise (documented refusal), PANIC! for any other panic. Lines
// starting with '#' are comments (panic texts, build label) and not compared.
package main

import (
	"bufio"
	"encoding/hex"
	"flag"
	"fmt"
	"os"
	"strings"

	"go.dedis.ch/kyber/v4"

	"verif/internal/gen"
)

// T is the transcript writer.
type T struct {
	w     *bufio.Writer
	part  string
	seed  int64
	tier  string
	lines int
}

func (t *T) thorough() bool { return t.tier == "thorough" }

// n picks a budget by tier.
func (t *T) n(quick, thorough int) int {
	if t.thorough() {
		return thorough
	}
	return quick
}

func (t *T) rng(label string, idx int) *gen.Rng { return gen.New(t.seed, "ctprog/"+label, idx) }

func hx(b []byte) string {
	if len(b) == 0 {
		return "-"
	}
	return hex.EncodeToString(b)
}

// enc is the hex encoding of a marshalable value.
func enc(m kyber.Marshaling) string {
	b, err := m.MarshalBinary()
	if err != nil {
		return "ERR"
	}
	return hx(b)
}

func errs(err error) string {
	if err != nil {
		return "ERR"
	}
	return "ok"
}

// do runs one step and prints its line. f returns the result string.
func (t *T) do(op, args string, mayPanic bool, f func() string) (res string) {
	defer func() {
		if e := recover(); e != nil {
			res = "PANIC!"
			if mayPanic {
				res = "PANIC"
			}
			t.emit(op, args, res)
			msg := strings.ReplaceAll(fmt.Sprint(e), "\n", " ")
			if len(msg) > 200 {
				msg = msg[:200]
			}
			fmt.Fprintf(t.w, "# panic in %s %s: %s\n", op, args, msg)
		}
	}()
	res = f()
	t.emit(op, args, res)
	return res
}

func (t *T) emit(op, args, res string) {
	if args == "" {
		args = "-"
	}
	fmt.Fprintf(t.w, "%s %s %s => %s\n", t.part, op, strings.ReplaceAll(args, " ", "_"), res)
	if t.lines%32 == 0 {
		_ = t.w.Flush() // keep the file current: if a later step hangs, the driver still compares what was printed
	}
	t.lines++
}

func main() {
	seed := flag.Int64("seed", 1, "seed")
	tier := flag.String("tier", "quick", "quick|thorough")
	out := flag.String("out", "", "output file (default stdout)")
	flag.Parse()
	f := os.Stdout
	if *out != "" {
		var err error
		f, err = os.Create(*out)
		if err != nil {
			fmt.Fprintln(os.Stderr, err)
			os.Exit(3)
		}
		defer f.Close()
	}
	t := &T{w: bufio.NewWriterSize(f, 1<<20), seed: *seed, tier: *tier}
	fmt.Fprintf(t.w, "# ctprog seed=%d tier=%s build=%s\n", *seed, *tier, buildLabel)
	t.part = "C"
	common(t)
	nc := t.lines
	t.part = "F"
	full(t)
	fmt.Fprintf(t.w, "# end common=%d full=%d\n", nc, t.lines-nc)
	if err := t.w.Flush(); err != nil {
		fmt.Fprintln(os.Stderr, err)
		os.Exit(3)
	}
}
