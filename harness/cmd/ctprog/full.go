//go:build !constantTime

package main

// Full-library part of the transcript: every group and pairing suite that is
// absent from constantTime builds. Compared across {default, generic, purego}:
// `generic` replaces the bn256/bn254 field assembly by Go code, `purego` does
// the same for gnark-crypto, CIRCL, x/crypto and the bigmod limbs.

import (
	"fmt"

	"go.dedis.ch/kyber/v4"
	"go.dedis.ch/kyber/v4/group/edwards25519"
	"go.dedis.ch/kyber/v4/group/edwards25519vartime"
	"go.dedis.ch/kyber/v4/group/p256"
	"go.dedis.ch/kyber/v4/pairing"
	"go.dedis.ch/kyber/v4/pairing/bls12381/gnark"
	"go.dedis.ch/kyber/v4/pairing/bls12381/kilic"
	"go.dedis.ch/kyber/v4/pairing/bn254"
	"go.dedis.ch/kyber/v4/pairing/bn256"
)

const buildLabel = "default"

func full(t *T) {
	groupProgs(t, "ed25519-allowvartime", nil, edwards25519.NewBlakeSHA256Ed25519(), true, t.n(3, 60), 36)
	groupProgs(t, "edvartime-proj", nil, edwards25519vartime.NewBlakeSHA256Ed25519(false), false, t.n(2, 40), 30)
	groupProgs(t, "edvartime-proj-full", nil, edwards25519vartime.NewBlakeSHA256Ed25519(true), false, t.n(1, 20), 30)
	groupProgs(t, "edvartime-ext", nil, new(edwards25519vartime.ExtendedCurve).InitCurve(edwards25519vartime.ParamEd25519(), false), false, t.n(2, 40), 30)
	groupProgs(t, "p256", nil, p256.NewBlakeSHA256P256(), false, t.n(3, 60), 36)
	groupProgs(t, "qr512", nil, p256.NewBlakeSHA256QR512(), false, t.n(2, 40), 30)
	suites := []struct {
		name string
		s    pairing.Suite
	}{
		{"bn256", bn256.NewSuite()},
		{"bn254", bn254.NewSuite()},
		{"kilic", kilic.NewBLS12381Suite()},
		{"gnark", gnark.NewSuite()},
	}
	for _, ps := range suites {
		groupProgs(t, ps.name, ps.s, nil, false, t.n(3, 60), 30)
		blsSection(t, ps.name, ps.s)
	}
	shamirSection(t, "p256", p256.NewBlakeSHA256P256())
	shamirSection(t, "bn256.G2", bn256.NewSuite().G2())
	shamirSection(t, "kilic.G1", kilic.NewBLS12381Suite().G1())
	shamirSection(t, "gnark.G2", gnark.NewSuite().G2())
	customDSTSection(t)
	schnorrFullSection(t)
}

type hash2 interface {
	Hash2(msg, dst []byte) kyber.Point
}

// customDSTSection: hash-to-curve with caller-chosen domain separation tags on the BLS12-381 back-ends.
func customDSTSection(t *T) {
	rng := t.rng("customdst", 0)
	for i := 0; i < t.n(6, 120); i++ {
		msg := rng.Bytes(rng.IntN(64))
		dst := rng.Bytes(1 + rng.IntN(60))
		args := fmt.Sprintf("%x,%x", msg, dst)
		t.do("kilic.Hash.dst", args, false, func() string {
			return enc(kilic.NewGroupG1(dst...).Point().(kyber.HashablePoint).Hash(msg)) + "," +
				enc(kilic.NewGroupG2(dst...).Point().(kyber.HashablePoint).Hash(msg))
		})
		t.do("gnark.Hash.dst", args, false, func() string {
			s := gnark.NewSuite()
			return enc(s.G1().Point().(hash2).Hash2(msg, dst)) + "," + enc(s.G2().Point().(hash2).Hash2(msg, dst))
		})
	}
}

// schnorrFullSection: Schnorr signatures with seeded randomness over the groups of the full library.
func schnorrFullSection(t *T) {
	schnorrOn(t, "p256", p256.NewBlakeSHA256P256())
	schnorrOn(t, "edvartime-proj", edwards25519vartime.NewBlakeSHA256Ed25519(false))
	schnorrOn(t, "bn256.G1", bn256.NewSuite().G1())
	schnorrOn(t, "bn254.G1", bn254.NewSuite().G1())
	schnorrOn(t, "kilic.G1", kilic.NewBLS12381Suite().G1())
	schnorrOn(t, "gnark.G2", gnark.NewSuite().G2())
}
