//go:build constantTime

package main

const buildLabel = "constantTime"

// full is empty in constant-time builds: the packages it exercises do not exist there.
func full(_ *T) {}
