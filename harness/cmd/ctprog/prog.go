package main

// Generic straight-line programs over the kyber.Group / pairing.Suite API.

import (
	"bytes"
	"crypto/cipher"
	"crypto/sha256"
	"encoding/hex"
	"fmt"
	"math/big"
	"strings"

	"go.dedis.ch/kyber/v4"
	"go.dedis.ch/kyber/v4/pairing"

	"verif/internal/gen"
)

type caps struct {
	base, mulNil, pick, embed, hash bool
}

func tryOK(f func()) (ok bool) {
	defer func() {
		if e := recover(); e != nil {
			ok = false
		}
	}()
	f()
	return true
}

func probe(g kyber.Group) caps {
	var c caps
	c.base = tryOK(func() { g.Point().Base() })
	if c.base {
		c.mulNil = tryOK(func() { g.Point().Mul(g.Scalar().One(), nil) })
	}
	c.pick = tryOK(func() { g.Point().Pick(gen.StreamOf([]byte("probe"))) })
	c.embed = tryOK(func() {
		if g.Point().EmbedLen() <= 0 {
			panic("no embedding")
		}
		p := g.Point().Embed([]byte{1}, gen.StreamOf([]byte("probe")))
		if _, err := p.Data(); err != nil {
			panic(err)
		}
	})
	c.hash = tryOK(func() { g.Point().(kyber.HashablePoint).Hash([]byte("probe")) })
	return c
}

// prog is a program state over one or three (G1,G2,GT) point sorts sharing one scalar field.
type prog struct {
	t     *T
	name  string
	sorts []kyber.Group
	sname []string
	caps  []caps
	suite pairing.Suite
	vt    bool // AllowVarTime on all points
	q     *big.Int
	edge  []*big.Int
	sc    []kyber.Scalar
	pt    [][]kyber.Point
}

func (p *prog) point(s int) kyber.Point {
	x := p.sorts[s].Point()
	if p.vt {
		if v, ok := x.(kyber.AllowsVarTime); ok {
			v.AllowVarTime(true)
		}
	}
	return x
}

func (p *prog) scalar() kyber.Scalar { return p.sorts[0].Scalar() }

func orderBytes(s kyber.Scalar, v *big.Int, n int) []byte {
	b := make([]byte, n)
	if (v.BitLen()+7)/8 > n {
		v = new(big.Int).Mod(v, new(big.Int).Lsh(big.NewInt(1), uint(8*n)))
	}
	v.FillBytes(b)
	if s.ByteOrder() == kyber.LittleEndian {
		for i, j := 0, len(b)-1; i < j; i, j = i+1, j-1 {
			b[i], b[j] = b[j], b[i]
		}
	}
	return b
}

func (p *prog) isZero(s kyber.Scalar) bool {
	return bytes.Equal(mustEnc(s), mustEnc(p.scalar().Zero()))
}

// fp is a short fingerprint of a value; it is printed with every operand so that a reader of two
// transcripts can tell a step that diverged on identical operands from one that inherited a divergence.
func fp(m kyber.Marshaling) (out string) {
	defer func() {
		if e := recover(); e != nil {
			out = "????????"
		}
	}()
	b, err := m.MarshalBinary()
	if err != nil {
		return "!!!!!!!!"
	}
	h := sha256.Sum256(b)
	return hex.EncodeToString(h[:4])
}

// S and P name an operand register together with the fingerprint of its current value.
func (p *prog) S(i int) string { return fmt.Sprintf("s%d@%s", i, fp(p.sc[i])) }
func (p *prog) P(s, i int) string {
	return fmt.Sprintf("p%d@%s", i, fp(p.pt[s][i]))
}

func mustEnc(m kyber.Marshaling) []byte {
	b, err := m.MarshalBinary()
	if err != nil {
		panic(err)
	}
	return b
}

// newProg builds the program state; sorts is one group or G1,G2,GT of suite.
func newProg(t *T, name string, suite pairing.Suite, g kyber.Group, vt bool) *prog {
	p := &prog{t: t, name: name, suite: suite, vt: vt}
	if suite != nil {
		p.sorts = []kyber.Group{suite.G1(), suite.G2(), suite.GT()}
		p.sname = []string{"G1", "G2", "GT"}
	} else {
		p.sorts = []kyber.Group{g}
		p.sname = []string{"P"}
	}
	for _, s := range p.sorts {
		p.caps = append(p.caps, probe(s))
	}
	p.q = new(big.Int).Set(p.scalar().GroupOrder().ToBigInt())
	p.edge = gen.Edge(p.q)
	return p
}

func (p *prog) op(s int, o string) string {
	if len(p.sorts) == 1 {
		return p.name + "." + o
	}
	return p.name + "." + p.sname[s] + "." + o
}

// run executes init + steps random instructions, printing one line per instruction.
func (p *prog) run(rng *gen.Rng, steps int) {
	t := p.t
	const nS, nP = 4, 4
	ql := (p.q.BitLen() + 7) / 8
	p.sc = make([]kyber.Scalar, nS)
	p.pt = make([][]kyber.Point, len(p.sorts))
	for i := 0; i < nS; i++ {
		v := rng.EdgeOrRandom(p.edge, p.q, 120)
		t.do(p.name+".Scalar.SetBytes", fmt.Sprintf("s%d,%s", i, v.Text(16)), false, func() string {
			s := p.scalar()
			p.sc[i] = s.SetBytes(orderBytes(s, v, ql))
			return enc(p.sc[i])
		})
		if p.sc[i] == nil {
			p.sc[i] = p.scalar().One()
		}
	}
	for s := range p.sorts {
		p.pt[s] = make([]kyber.Point, nP)
		for i := 0; i < nP; i++ {
			p.pt[s][i] = p.point(s).Null()
		}
		for i := 1; i < nP; i++ {
			switch {
			case len(p.sorts) == 3 && s == 2:
				a, b := (i+1)%nP, (i+2)%nP
				t.do(p.name+".Pair", fmt.Sprintf("gt%d,g1:%s,g2:%s", i, p.P(0, a), p.P(1, b)), false, func() string {
					p.pt[2][i] = p.suite.Pair(p.pt[0][a], p.pt[1][b])
					return enc(p.pt[2][i])
				})
			case i == 1 && p.caps[s].base:
				t.do(p.op(s, "Base"), fmt.Sprintf("p%d", i), false, func() string {
					p.pt[s][i] = p.point(s).Base()
					return enc(p.pt[s][i])
				})
			case i == 2 && p.caps[s].pick:
				seed := rng.Bytes(16)
				t.do(p.op(s, "Pick"), fmt.Sprintf("p%d,%x", i, seed), false, func() string {
					p.pt[s][i] = p.point(s).Pick(gen.StreamOf(seed))
					return enc(p.pt[s][i])
				})
			case p.caps[s].mulNil:
				k := rng.IntN(nS)
				t.do(p.op(s, "MulBase"), fmt.Sprintf("p%d,%s", i, p.S(k)), false, func() string {
					p.pt[s][i] = p.point(s).Mul(p.sc[k], nil)
					return enc(p.pt[s][i])
				})
			}
		}
	}
	for n := 0; n < steps; n++ {
		p.step(rng, nS, nP, ql)
	}
	// final dump of every register
	for i := 0; i < nS; i++ {
		i := i
		t.do(p.name+".Scalar.final", fmt.Sprintf("s%d", i), false, func() string { return enc(p.sc[i]) })
	}
	for s := range p.sorts {
		for i := 0; i < nP; i++ {
			s, i := s, i
			t.do(p.op(s, "final"), fmt.Sprintf("p%d", i), false, func() string { return enc(p.pt[s][i]) })
		}
	}
}

func (p *prog) step(rng *gen.Rng, nS, nP, ql int) {
	t := p.t
	if rng.IntN(100) < 30 {
		d, a, b := rng.IntN(nS), rng.IntN(nS), rng.IntN(nS)
		inpl := rng.IntN(4) == 0
		recv := func() kyber.Scalar {
			if inpl {
				return p.sc[d]
			}
			return p.scalar()
		}
		tag := ""
		if inpl {
			tag = ",inplace"
		}
		bin := func(name string, f func(r, x, y kyber.Scalar) kyber.Scalar) {
			t.do(p.name+".Scalar."+name, fmt.Sprintf("s%d=%s,%s%s", d, p.S(a), p.S(b), tag), false, func() string {
				p.sc[d] = f(recv(), p.sc[a], p.sc[b])
				return enc(p.sc[d])
			})
		}
		switch c := rng.IntN(15); c {
		case 0, 1:
			bin("Add", func(r, x, y kyber.Scalar) kyber.Scalar { return r.Add(x, y) })
		case 2:
			bin("Sub", func(r, x, y kyber.Scalar) kyber.Scalar { return r.Sub(x, y) })
		case 3, 4:
			bin("Mul", func(r, x, y kyber.Scalar) kyber.Scalar { return r.Mul(x, y) })
		case 5:
			bin("Neg", func(r, x, _ kyber.Scalar) kyber.Scalar { return r.Neg(x) })
		case 6:
			if p.isZero(p.sc[a]) {
				bin("Neg", func(r, x, _ kyber.Scalar) kyber.Scalar { return r.Neg(x) })
			} else {
				bin("Inv", func(r, x, _ kyber.Scalar) kyber.Scalar { return r.Inv(x) })
			}
		case 7:
			if p.isZero(p.sc[b]) {
				bin("Sub", func(r, x, y kyber.Scalar) kyber.Scalar { return r.Sub(x, y) })
			} else {
				bin("Div", func(r, x, y kyber.Scalar) kyber.Scalar { return r.Div(x, y) })
			}
		case 8:
			var v int64
			switch rng.IntN(5) {
			case 0:
				v = int64(rng.IntN(5)) - 2
			case 1:
				v = -1 << 63
			case 2:
				v = 1<<63 - 1
			default:
				v = int64(rng.Uint64() >> uint(1+rng.IntN(62)))
				if rng.IntN(2) == 0 {
					v = -v
				}
			}
			t.do(p.name+".Scalar.SetInt64", fmt.Sprintf("s%d=%d", d, v), false, func() string {
				p.sc[d] = p.scalar().SetInt64(v)
				return enc(p.sc[d])
			})
		case 9, 10:
			n := rng.IntN(2*ql + 8)
			if rng.IntN(3) == 0 {
				n = ql
			}
			bs := rng.Bytes(n)
			switch rng.IntN(5) {
			case 0:
				for i := range bs {
					bs[i] = 0xff
				}
			case 1:
				for i := range bs {
					bs[i] = 0
				}
			}
			// the same integer on every byte order: bs is the big-endian value
			v := new(big.Int).SetBytes(bs)
			t.do(p.name+".Scalar.SetBytes", fmt.Sprintf("s%d=%s/%d", d, v.Text(16), n), false, func() string {
				s := p.scalar()
				p.sc[d] = s.SetBytes(orderBytes(s, v, n))
				return enc(p.sc[d])
			})
		case 11:
			seed := rng.Bytes(16)
			t.do(p.name+".Scalar.Pick", fmt.Sprintf("s%d,%x", d, seed), false, func() string {
				p.sc[d] = p.scalar().Pick(gen.StreamOf(seed))
				return enc(p.sc[d])
			})
		case 12:
			t.do(p.name+".Scalar.Set", fmt.Sprintf("s%d=%s", d, p.S(a)), false, func() string {
				p.sc[d] = p.scalar().Set(p.sc[a])
				return enc(p.sc[d])
			})
		case 13:
			t.do(p.name+".Scalar.roundtrip", fmt.Sprintf("s%d=%s", d, p.S(a)), false, func() string {
				s := p.scalar()
				if err := s.UnmarshalBinary(mustEnc(p.sc[a])); err != nil {
					return "ERR"
				}
				p.sc[d] = s
				return enc(s) + "," + fmt.Sprint(s.Equal(p.sc[a]))
			})
		case 14:
			coin := rng.IntN(2)
			t.do(p.name+".Scalar.ZeroOne", fmt.Sprintf("s%d,%s,%s", d, p.S(a), p.S(b)), false, func() string {
				z, o := p.scalar().Zero(), p.scalar().One()
				if coin == 0 {
					p.sc[d] = z
				} else {
					p.sc[d] = o
				}
				return enc(z) + "," + enc(o) + "," + fmt.Sprint(p.sc[a].Equal(p.sc[b]))
			})
		}
		return
	}
	s := rng.IntN(len(p.sorts))
	cp := p.caps[s]
	d, a, b, k := rng.IntN(nP), rng.IntN(nP), rng.IntN(nP), rng.IntN(nS)
	inpl := rng.IntN(4) == 0
	recv := func() kyber.Point {
		if inpl {
			return p.pt[s][d]
		}
		return p.point(s)
	}
	tag := ""
	if inpl {
		tag = ",inplace"
	}
	pts := p.pt[s]
	bin := func(name string, f func(r, x, y kyber.Point) kyber.Point) {
		t.do(p.op(s, name), fmt.Sprintf("p%d=%s,%s%s", d, p.P(s, a), p.P(s, b), tag), false, func() string {
			pts[d] = f(recv(), pts[a], pts[b])
			return enc(pts[d])
		})
	}
	mul := func() {
		t.do(p.op(s, "Mul"), fmt.Sprintf("p%d=%s*%s%s", d, p.S(k), p.P(s, a), tag), false, func() string {
			pts[d] = recv().Mul(p.sc[k], pts[a])
			return enc(pts[d])
		})
	}
	gt := len(p.sorts) == 3 && s == 2
	switch c := rng.IntN(26); {
	case c < 4:
		bin("Add", func(r, x, y kyber.Point) kyber.Point { return r.Add(x, y) })
	case c < 6:
		bin("Sub", func(r, x, y kyber.Point) kyber.Point { return r.Sub(x, y) })
	case c < 7:
		bin("Neg", func(r, x, _ kyber.Point) kyber.Point { return r.Neg(x) })
	case c < 12:
		mul()
	case c < 15:
		if !cp.mulNil {
			mul()
			return
		}
		t.do(p.op(s, "MulBase"), fmt.Sprintf("p%d=%s*B", d, p.S(k)), false, func() string {
			pts[d] = p.point(s).Mul(p.sc[k], nil)
			return enc(pts[d])
		})
	case c < 16:
		bin("Double", func(r, x, _ kyber.Point) kyber.Point { return r.Add(x, x) })
	case c < 17:
		coin := rng.IntN(2)
		t.do(p.op(s, "NullBase"), fmt.Sprintf("p%d", d), false, func() string {
			n := p.point(s).Null()
			res := enc(n)
			pts[d] = n
			if cp.base {
				bp := p.point(s).Base()
				res += "," + enc(bp)
				if coin == 0 {
					pts[d] = bp
				}
			}
			return res
		})
	case c < 18:
		t.do(p.op(s, "SetClone"), fmt.Sprintf("p%d=%s,%s", d, p.P(s, a), p.P(s, b)), false, func() string {
			x := p.point(s).Set(pts[a])
			y := pts[a].Clone()
			pts[d] = x
			return enc(x) + "," + enc(y) + "," + fmt.Sprint(x.Equal(y), pts[a].Equal(pts[b]))
		})
	case c < 20:
		t.do(p.op(s, "roundtrip"), fmt.Sprintf("p%d=%s", d, p.P(s, a)), false, func() string {
			x := p.point(s)
			if err := x.UnmarshalBinary(mustEnc(pts[a])); err != nil {
				return "ERR"
			}
			pts[d] = x
			return enc(x) + "," + fmt.Sprint(x.Equal(pts[a]))
		})
	case c < 22:
		switch {
		case gt:
			t.do(p.name+".Pair", fmt.Sprintf("gt%d,g1:%s,g2:%s", d, p.P(0, a), p.P(1, b)), false, func() string {
				pts[d] = p.suite.Pair(p.pt[0][a], p.pt[1][b])
				return enc(pts[d])
			})
		case cp.pick:
			seed := rng.Bytes(16)
			t.do(p.op(s, "Pick"), fmt.Sprintf("p%d,%x", d, seed), false, func() string {
				pts[d] = p.point(s).Pick(gen.StreamOf(seed))
				return enc(pts[d])
			})
		default:
			mul()
		}
	case c < 24:
		switch {
		case gt:
			// e(a,b) ?= e(a',b') through ValidatePairing
			a2, b2 := rng.IntN(nP), rng.IntN(nP)
			t.do(p.name+".ValidatePairing", fmt.Sprintf("g1:%s,g2:%s,g1:%s,g2:%s", p.P(0, a), p.P(1, b), p.P(0, a2), p.P(1, b2)), false, func() string {
				same := p.suite.ValidatePairing(p.pt[0][a], p.pt[1][b], p.pt[0][a], p.pt[1][b])
				return fmt.Sprint(same, p.suite.ValidatePairing(p.pt[0][a], p.pt[1][b], p.pt[0][a2], p.pt[1][b2]))
			})
		case cp.embed:
			seed := rng.Bytes(16)
			data := rng.Bytes(rng.IntN(p.point(s).EmbedLen() + 1))
			t.do(p.op(s, "EmbedData"), fmt.Sprintf("p%d,%x,%x", d, data, seed), false, func() string {
				pts[d] = p.point(s).Embed(data, gen.StreamOf(seed))
				back, err := pts[d].Data()
				if err != nil {
					return enc(pts[d]) + ",ERR"
				}
				return enc(pts[d]) + "," + hx(back)
			})
		default:
			mul()
		}
	default:
		if cp.hash {
			msg := rng.Bytes(rng.IntN(48))
			t.do(p.op(s, "Hash"), fmt.Sprintf("p%d,%x", d, msg), false, func() string {
				pts[d] = p.point(s).(kyber.HashablePoint).Hash(msg)
				return enc(pts[d])
			})
		} else {
			bin("Add", func(r, x, y kyber.Point) kyber.Point { return r.Add(x, y) })
		}
	}
}

// groupProgs runs n programs of the given length on one group or suite.
func groupProgs(t *T, name string, suite pairing.Suite, g kyber.Group, vt bool, n, steps int) {
	for i := 0; i < n; i++ {
		p := newProg(t, name, suite, g, vt)
		p.run(t.rng("prog/"+strings.ToLower(name), i), steps)
	}
}

// seededSuite turns a group into a key/Schnorr suite whose randomness is a seeded stream.
type seededSuite struct {
	kyber.Group
	str cipher.Stream
}

// RandomStream returns the seeded stream.
func (s seededSuite) RandomStream() cipher.Stream { return s.str }
