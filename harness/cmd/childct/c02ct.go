package main

import (
	"math/big"

	"go.dedis.ch/kyber/v4"
	"go.dedis.ch/kyber/v4/compatible/compatiblemod"
	"go.dedis.ch/kyber/v4/group/edwards25519"
	"go.dedis.ch/kyber/v4/group/mod"
	"go.dedis.ch/kyber/v4/pairing/bls12381/circl"

	"verif/internal/c02core"
	"verif/internal/mon"
)

func init() { register("C02", c02ct) }

// c02ct runs the scalar monitor on the implementations that exist in this
// build (with -tags constantTime: mod.Int over bigmod, Ed25519 limb scalar, CIRCL).
func c02ct(r *mon.R) {
	r.SetRule("constant-time build variant: same scalar monitor as the default build (ops/setbytes/setint64/pick judged against math/big) on the implementations available under -tags constantTime")
	r.Assume("math/big is the reference for Z_q")
	var impls []c02core.Impl
	add := func(name string, g kyber.Group) {
		q := new(big.Int).Set(g.Scalar().GroupOrder().ToBigInt())
		impls = append(impls, c02core.Impl{Name: name, New: func() kyber.Scalar { return g.Scalar() }, Q: q, Len: g.ScalarLen()})
	}
	add("ed25519", edwards25519.NewBlakeSHA256Ed25519())
	add("circl.G1", circl.NewSuite().G1())
	for _, m := range []struct {
		name string
		q    string
		le   bool
	}{
		{"modint-le-127", "170141183460469231731687303715884105727", true},
		{"modint-be-64", "18446744073709551557", false},
		{"modint-be-521", "6864797660130609714981900799081393217269435300143305409394463459185543183397656052122559640661454554977296311391480858037121987999716643812574028291115057151", false},
		{"modint-be-p256n", "115792089210356248762697446949407573529996955224135760342422259061068512044369", false},
		{"modint-be-bn", "65000549695646603732796438742359905742570406053903786389881062969044166799969", false},
		{"modint-le-bls", "52435875175126190479447740508185965837690552500527637822603658699938581184513", true},
	} {
		q, _ := new(big.Int).SetString(m.q, 10)
		M := compatiblemod.FromBigInt(q)
		bo := kyber.BigEndian
		if m.le {
			bo = kyber.LittleEndian
		}
		impls = append(impls, c02core.Impl{Name: m.name, New: func() kyber.Scalar { return mod.NewIntBytes(nil, M, bo) }, Q: q, Len: (q.BitLen() + 7) / 8})
	}
	c02core.Run(r, impls, buildLabel)
}
