//go:build constantTime

package main

const buildLabel = "constantTime"
