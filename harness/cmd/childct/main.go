// Command childct hosts the monitors that must also compile with -tags constantTime
// (the constant-time big-integer back-end): C02 scalars and the C18 transcript program.
package main

import (
	"verif/internal/childmain"
	"verif/internal/mon"
)

func register(id string, f func(r *mon.R)) { childmain.Register(id, f) }

func main() { childmain.Main() }
