//go:build !constantTime

package main

const buildLabel = "default"
