#!/bin/sh
# ./batch_mut2.sh <Cxx>... : run the corresponding check against each confirmed seeded defect seeded/<id>-k; one result line each in .work/mutres2.log
for ID in "$@"; do
  for d in seeded/$ID-*; do
    [ -d $d ] || continue
    P=$d/patch.diff; [ -f $d/patch.rebased.diff ] && P=$d/patch.rebased.diff
    out=$(MUT_LINES=6 ./mut.sh $P $ID 2>&1)
    st=$(echo "$out" | grep -E "^(MUTANT|PATCH)" | tail -1)
    key=$(echo "$out" | grep "^VIOLATION" | grep -o "key=[^ ]*" | head -1)
    echo "$(basename $d): $st $key" >> .work/mutres2.log
  done
done
