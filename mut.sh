#!/bin/sh
# ./mut.sh <patch.diff> <Cxx> [tier] : apply patch to a scratch copy of /repo's working tree, run the check against it, clean up.
# Prints the VIOLATION/verdict lines. Exit 0 if the check flagged the mutant (rc=1), 1 if missed.
P=$(readlink -f "$1"); ID=$2; TIER=${3:-quick}
S=/root/scratch/mut-$$
mkdir -p $S && rsync -a --exclude .git /repo/ $S/ || exit 2
if ! (cd $S && patch -p1 -s --no-backup-if-mismatch < "$P"); then echo "PATCH DOES NOT APPLY: $P"; rm -rf $S; exit 2; fi
VERIF_REPO=$S VERIF_WORK=/verif/.work/mut-$$ ./run.sh $ID $TIER > $S.log 2>&1; rc=$?
grep -E "^(VIOLATION|KNOWN|INCONCL|BROKEN|BUILD|C[0-9]+ )" $S.log | cut -c1-300 | head -${MUT_LINES:-8}
rm -rf $S /verif/.work/mut-$$ /verif/.build/*$(printf %s "$S" | sha1sum | cut -c1-8)* /verif/.build/go.$(printf %s "$S" | sha1sum | cut -c1-10).*
mv $S.log /verif/.work/last-mut.log 2>/dev/null
if [ $rc -eq 1 ]; then echo "MUTANT CAUGHT ($ID $TIER)"; exit 0; else echo "MUTANT MISSED rc=$rc ($ID $TIER)"; exit 1; fi
