#!/bin/sh
# ./sweep.sh [tier] seed... : run every claimed check at each seed, one line per run in .work/sweep.log; exit 1 if any run is not "held".
TIER=${1:-quick}; shift
bad=0
for s in "$@"; do
  for n in $(seq -w 1 20); do
    id=C$n
    out=$(VERIF_SEED=$s ./run.sh $id $TIER 2>&1); rc=$?
    line=$(echo "$out" | grep -E "^$id $TIER" | tail -1)
    echo "seed=$s rc=$rc $line" | tee -a .work/sweep.log
    if [ $rc -ne 0 ]; then bad=1; echo "$out" | grep -E "^(VIOLATION|INCONCL|BROKEN)" | head -5 | tee -a .work/sweep.log; fi
  done
done
exit $bad
