#!/usr/bin/env python3
"""kf.py <property> <key-pattern> <fixed|known> <commit|-> <what...> : append a record to known_findings.json"""
import json, sys
p, key, st, commit = sys.argv[1:5]
what = " ".join(sys.argv[5:])
f = "/verif/known_findings.json"
d = json.load(open(f))
rec = {"property": p, "key": key, "status": st, "what": what}
if commit != "-":
    rec["commit"] = commit
d["findings"].append(rec)
json.dump(d, open(f, "w"), indent=1)
print(len(d["findings"]), "records")
