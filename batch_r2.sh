#!/bin/sh
# round 2: validate new seeded defects (k=3,4) and run their checks
for ID in "$@"; do
  ./seedauto.sh $ID >> .work/seedcheck-r2.log 2>&1
  for k in 3 4 5 6 7 8; do
    d=seeded/$ID-$k
    [ -d $d ] || continue
    P=$d/patch.diff; [ -f $d/patch.rebased.diff ] && P=$d/patch.rebased.diff
    out=$(MUT_LINES=8 ./mut.sh $P $ID 2>&1)
    st=$(echo "$out" | grep -E "^(MUTANT|PATCH)" | tail -1)
    key=$(echo "$out" | grep "^VIOLATION" | grep -o "key=[^ ]*" | head -1)
    echo "$(basename $d): $st $key" >> .work/mutres2.log
  done
done
