#!/bin/sh
# ./batch_mut.sh Cxx... : validate seeded mutants (seedauto) and run the corresponding check against each; results in .work/mutres.log
for ID in "$@"; do
  ./seedauto.sh $ID >> .work/seedcheck-batch.log 2>&1
  for k in 1 2; do
    P=/tmp/wt/$ID/_mut/$k/patch.diff
    [ -f $P ] || continue
    [ -f seeded/$ID-$k/patch.rebased.diff ] && P=seeded/$ID-$k/patch.rebased.diff
    res=$(MUT_LINES=2 ./mut.sh $P $ID 2>&1 | tail -3 | tr '\n' ' ' | cut -c1-400)
    echo "$ID-$k: $res" >> .work/mutres.log
  done
done
