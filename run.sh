#!/bin/sh
# ./run.sh <Cxx> <quick|thorough>   |   ./run.sh --replay <replay.json>
# Rebuilds the monitors against /repo's working tree (or $VERIF_REPO) with -tags verif and runs them.
cd "$(dirname "$0")" || exit 2
unset GOSUMDB GOTOOLCHAIN
export GOFLAGS=-mod=mod GOPROXY=off
exec python3 ./driver.py "$@"
