package exp
import (
 "testing"
 "fmt"
 "crypto/cipher"
 "go.dedis.ch/kyber/v4"
 "go.dedis.ch/kyber/v4/sign/schnorr"
 "go.dedis.ch/kyber/v4/util/random"
)
type sAdapter struct{ kyber.Group }
func (s sAdapter) RandomStream() cipher.Stream { return random.New() }
func TestSchnorrAll(t *testing.T){
  for _, G := range groups() {
    func(){
      defer func(){ if r := recover(); r != nil { fmt.Printf("%s: PANIC %v\n", G.name, r) } }()
      s := sAdapter{G.g}
      x := s.Scalar().Pick(random.New()); X := s.Point().Mul(x, nil)
      sig, err := schnorr.Sign(s, x, []byte("m"))
      if err != nil { fmt.Println(G.name, "sign err", err); return }
      e1 := schnorr.Verify(s, X, []byte("m"), sig)
      e2 := schnorr.Verify(s, X, []byte("n"), sig)
      fmt.Printf("%s: verify=%v wrongmsg rejected=%v siglen=%d\n", G.name, e1, e2 != nil, len(sig))
    }()
  }
}
