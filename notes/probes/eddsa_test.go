package exp
import (
 "testing"
 "fmt"
 "bytes"
 "crypto/ed25519"
 "math/rand"
 "math/big"
 "go.dedis.ch/kyber/v4/group/edwards25519"
 "go.dedis.ch/kyber/v4/sign/eddsa"
 "go.dedis.ch/kyber/v4/sign/schnorr"
)
func TestEdDSA(t *testing.T){
  rng := rand.New(rand.NewSource(3))
  ed := edwards25519.NewBlakeSHA256Ed25519()
  mism := 0
  L, _ := new(big.Int).SetString("7237005577332262213973186563042994240857116359379907606001950938285454250989", 10)
  // 8-torsion point encodings
  tors := [][]byte{}
  for _, h := range []string{
    "0100000000000000000000000000000000000000000000000000000000000000",
    "ecffffffffffffffffffffffffffffffffffffffffffffffffffffffffffff7f",
    "0000000000000000000000000000000000000000000000000000000000000000",
    "0000000000000000000000000000000000000000000000000000000000000080",
    "26e8958fc2b227b045c3f489f2ef98f0d5dfac05d3c63339b13802886d53fc05",
    "26e8958fc2b227b045c3f489f2ef98f0d5dfac05d3c63339b13802886d53fc85",
    "c7176a703d4dd84fba3c0b760d10670f2a2053fa2c39ccc64ec7fd7792ac037a",
    "c7176a703d4dd84fba3c0b760d10670f2a2053fa2c39ccc64ec7fd7792ac03fa",
  } { b := make([]byte, 32); fmt.Sscanf(h, "%x", &b); tors = append(tors, b) }
  kAccStdRej := 0; stdAccKRej := 0; bothAcc := 0
  for i := 0; i < 300; i++ {
    seed := make([]byte, 32); rng.Read(seed)
    msg := make([]byte, rng.Intn(200)); rng.Read(msg)
    std := ed25519.NewKeyFromSeed(seed)
    var e eddsa.EdDSA
    if err := e.UnmarshalBinary(append(append([]byte{}, seed...), std.Public().(ed25519.PublicKey)...)); err != nil { t.Fatal(err) }
    pk, _ := e.Public.MarshalBinary()
    if !bytes.Equal(pk, std.Public().(ed25519.PublicKey)) { mism++ }
    sig, _ := e.Sign(msg)
    if !bytes.Equal(sig, ed25519.Sign(std, msg)) { mism++ }
    // mutations
    muts := [][]byte{}
    // S + L
    s := new(big.Int).SetBytes(rev(sig[32:])); s.Add(s, L); sb := rev(leftpad(s.Bytes(), 32)); muts = append(muts, append(append([]byte{}, sig[:32]...), sb...))
    // R + torsion
    R := ed.Point(); R.UnmarshalBinary(sig[:32])
    for _, tb := range tors { T := ed.Point(); if T.UnmarshalBinary(tb) != nil { continue }; R2 := ed.Point().Add(R, T); rb,_ := R2.MarshalBinary(); muts = append(muts, append(append([]byte{}, rb...), sig[32:]...)) }
    // R replaced by torsion
    for _, tb := range tors { muts = append(muts, append(append([]byte{}, tb...), sig[32:]...)) }
    for b := 0; b < 30; b++ { m := append([]byte{}, sig...); bit := rng.Intn(512); m[bit/8] ^= 1 << (bit%8); muts = append(muts, m) }
    for _, m := range muts {
      if bytes.Equal(m, sig) { continue }
      ka := eddsa.Verify(e.Public, msg, m) == nil
      sa := ed25519.Verify(std.Public().(ed25519.PublicKey), msg, m)
      ska := schnorr.Verify(ed, e.Public, msg, m) == nil
      if ka != ska { fmt.Println("eddsa/schnorr verdict differ") }
      if ka && !sa { kAccStdRej++ }
      if !ka && sa { stdAccKRej++ }
      if ka && sa { bothAcc++; fmt.Printf("mutated sig accepted by both: %x\n", m) }
    }
  }
  fmt.Println("mismatch vs std:", mism, " kyberAcc&stdRej:", kAccStdRej, " stdAcc&kyberRej:", stdAccKRej, " bothAcc:", bothAcc)
}
func rev(b []byte) []byte { o := make([]byte, len(b)); for i := range b { o[len(b)-1-i] = b[i] }; return o }
func leftpad(b []byte, n int) []byte { if len(b) >= n { return b[len(b)-n:] }; return append(make([]byte, n-len(b)), b...) }
