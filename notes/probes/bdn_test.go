package exp
import (
 "testing"
 "fmt"
 "math/rand"
 "go.dedis.ch/kyber/v4"
 "go.dedis.ch/kyber/v4/pairing"
 "go.dedis.ch/kyber/v4/pairing/bn256"
 "go.dedis.ch/kyber/v4/pairing/bls12381/kilic"
 "go.dedis.ch/kyber/v4/pairing/bls12381/circl"
 "go.dedis.ch/kyber/v4/sign/bdn"
 "go.dedis.ch/kyber/v4/util/random"
)
func TestBDN(t *testing.T){
  rng := rand.New(rand.NewSource(8))
  type cfg struct{ n string; s pairing.Suite; g2 bool }
  for _, c := range []cfg{{"bn256/G1", bn256.NewSuite(), false}, {"kilic/G1", kilic.NewBLS12381Suite(), false}, {"kilic/G2", kilic.NewBLS12381Suite(), true}, {"circl/G2", circl.NewSuite(), true}} {
    issues := map[string]int{}
    func(){ defer func(){ if r := recover(); r != nil { issues[fmt.Sprintf("PANIC %v", r)]++ } }()
    var sch *bdn.Scheme; var keyGroup kyber.Group
    if c.g2 { sch = bdn.NewSchemeOnG2(c.s); keyGroup = c.s.G1() } else { sch = bdn.NewSchemeOnG1(c.s); keyGroup = c.s.G2() }
    n := 7
    var sks []kyber.Scalar; var pks []kyber.Point
    for i:=0;i<n;i++{ sk, pk := sch.NewKeyPair(random.New()); sks = append(sks, sk); pks = append(pks, pk) }
    msg := []byte("msg")
    for iter := 0; iter < 12; iter++ {
      bits := rng.Intn(1<<n); if bits == 0 { bits = 1 }
      m, _ := bdn.NewMask(keyGroup, pks, nil)
      var sigs [][]byte
      for i:=0;i<n;i++{ if bits>>i&1 == 1 { m.SetBit(i, true); sg,_ := sch.Sign(sks[i], msg); sigs = append(sigs, sg) } }
      // alternative construction via SetMask on clone
      m2, _ := bdn.NewMask(keyGroup, pks, nil); m2 = m2.Clone(); m2.SetMask(m.Mask())
      agg, err := sch.AggregateSignatures(sigs, m); if err != nil { issues["aggsig err "+err.Error()]++; continue }
      ab, _ := agg.MarshalBinary()
      ak, err := sch.AggregatePublicKeys(m2); if err != nil { issues["aggpk err"]++; continue }
      if err := sch.Verify(ak, msg, ab); err != nil { issues["honest aggregate rejected"]++ }
      if err := sch.Verify(ak, []byte("other"), ab); err == nil { issues["other msg accepted"]++ }
      // other mask
      ob := bits ^ (1 << rng.Intn(n)); if ob == 0 { continue }
      m3, _ := bdn.NewMask(keyGroup, pks, nil); for i:=0;i<n;i++{ if ob>>i&1==1 { m3.SetBit(i,true) } }
      ak3, _ := sch.AggregatePublicKeys(m3)
      if err := sch.Verify(ak3, msg, ab); err == nil { issues["other mask accepted"]++ }
    }}()
    fmt.Println(c.n, issues)
  }
}
