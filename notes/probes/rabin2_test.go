package exp
import (
 "testing"
 "fmt"
 "sort"
 "go.dedis.ch/kyber/v4"
 "go.dedis.ch/kyber/v4/group/edwards25519"
 "go.dedis.ch/kyber/v4/share"
 rdkg "go.dedis.ch/kyber/v4/share/dkg/rabin"
 rvss "go.dedis.ch/kyber/v4/share/vss/rabin"
 "go.dedis.ch/kyber/v4/sign/schnorr"
 "go.dedis.ch/kyber/v4/util/random"
)
func TestRabinDKG2(t *testing.T){
  suite := edwards25519.NewBlakeSHA256Ed25519()
  n, thr := 4, 3
  byz := 3
  var privs []kyber.Scalar; var pubs []kyber.Point
  for i:=0;i<n;i++{ x := suite.Scalar().Pick(random.New()); privs = append(privs,x); pubs = append(pubs, suite.Point().Mul(x,nil)) }
  gens := make([]*rdkg.DistKeyGenerator, n)
  for i:=0;i<n;i++{ if i == byz { continue }; g, err := rdkg.NewDistKeyGenerator(suite, privs[i], pubs, uint32(thr)); if err != nil { t.Fatal(err) }; gens[i] = g }
  dealer3, err := rvss.NewDealer(suite, privs[byz], suite.Scalar().Pick(random.New()), pubs, uint32(thr)); if err != nil { t.Fatal(err) }
  enc3, _ := dealer3.EncryptedDeals()
  enc3[0].Cipher[len(enc3[0].Cipher)/2] ^= 0xff
  var resps []*rdkg.Response
  for i:=0;i<n;i++{
    if i == byz {
      for j := 0; j < n; j++ { if j == byz { continue }
        r, err := gens[j].ProcessDeal(&rdkg.Deal{Index: uint32(byz), Deal: enc3[j]}); if err != nil { fmt.Printf("node %d ProcessDeal from %d err: %v\n", j, i, err); continue }; resps = append(resps, r) }
      continue
    }
    deals, _ := gens[i].Deals()
    for j, d := range deals { if j == byz { v, _ := rvss.NewVerifier(suite, privs[byz], pubs[i], pubs); vr, err := v.ProcessEncryptedDeal(d.Deal); if err != nil { fmt.Println("byz verifier err", err) } else { resps = append(resps, &rdkg.Response{Index: uint32(i), Response: vr}) }; continue }; r, err := gens[j].ProcessDeal(d); if err != nil { fmt.Printf("node %d ProcessDeal from %d err: %v\n", j, i, err); continue }; resps = append(resps, r) }
  }
  for _, r := range resps {
    for i:=0;i<n;i++{ if uint32(i) == r.Response.Index { continue }
      rr := *r.Response
      if i == byz { if r.Index == uint32(byz) { if _, err := dealer3.ProcessResponse(&rr); err != nil { fmt.Println("dealer3 resp err", err) } }; continue }
      cp := rdkg.Response{Index: r.Index, Response: &rr}; gens[i].ProcessResponse(&cp) }
  }
  dealer3.UnsafeSetResponseDKG(uint32(byz), true)
  dealer3.SetTimeout()
  for i:=0;i<n;i++{ if i != byz { gens[i].SetTimeout() } }
  for i:=0;i<n;i++{ if i == byz { continue }; q := gens[i].QUAL(); qi := []int{}; for _, x := range q { qi = append(qi, int(x)) }; sort.Ints(qi); fmt.Printf("node %d certified=%v QUAL=%v\n", i, gens[i].Certified(), qi) }
  var scs []*rdkg.SecretCommits
  for i:=0;i<n;i++{ if i == byz { continue }; sc, err := gens[i].SecretCommits(); if err != nil { fmt.Printf("node %d SecretCommits err %v\n", i, err); continue }; scs = append(scs, sc) }
  c3 := dealer3.Commits()
  fmt.Println("byzantine dealer certified in own view:", dealer3.DealCertified(), "commits:", len(c3))
  sc3 := &rdkg.SecretCommits{Index: uint32(byz), Commitments: c3, SessionID: dealer3.SessionID()}
  sc3.Signature, _ = schnorr.Sign(suite, privs[byz], sc3.Hash(suite))
  scs = append(scs, sc3)
  for _, sc := range scs { for i:=0;i<n;i++{ if i == byz || uint32(i) == sc.Index { continue }; cc, err := gens[i].ProcessSecretCommits(sc); if err != nil { fmt.Printf("node %d ProcessSecretCommits(from %d) err: %v\n", i, sc.Index, err) }; if cc != nil { fmt.Printf("node %d complaint commits vs %d\n", i, sc.Index) } } }
  var keys []kyber.Point
  for i:=0;i<n;i++{ if i == byz { continue }; dks, err := gens[i].DistKeyShare(); if err != nil { fmt.Printf("node %d DistKeyShare err %v\n", i, err); continue }; fmt.Printf("node %d pub=%s finished=%v\n", i, dks.Public().String()[:16], gens[i].Finished()); keys = append(keys, dks.Public()); pp := share.NewPubPoly(suite, nil, dks.Commits); if !pp.Check(dks.Share) { fmt.Printf("node %d share NOT on its own poly\n", i) } }
  for i := 1; i < len(keys); i++ { if !keys[i].Equal(keys[0]) { fmt.Println("==> HONEST NODES DISAGREE ON PUBLIC KEY"); break } }
}
