package exp
import (
 "testing"
 "fmt"
 "sort"
 "go.dedis.ch/kyber/v4"
 "go.dedis.ch/kyber/v4/group/edwards25519"
 "go.dedis.ch/kyber/v4/share"
 dkg "go.dedis.ch/kyber/v4/share/dkg/pedersen"
 "go.dedis.ch/kyber/v4/sign/schnorr"
 "go.dedis.ch/kyber/v4/util/random"
)
type scen struct { name string; mutDeal func(b *dkg.DealBundle, sign func(p dkg.Packet) []byte) []*dkg.DealBundle; justify bool; mutJust func(j *dkg.JustificationBundle, sign func(p dkg.Packet) []byte) *dkg.JustificationBundle; falseComplaint bool; fast bool }
func runDKG(n, thr int, byz int, sc scen) {
  suite := edwards25519.NewBlakeSHA256Ed25519()
  var privs []kyber.Scalar; var nodes []dkg.Node
  for i:=0;i<n;i++{ x := suite.Scalar().Pick(random.New()); privs = append(privs,x); nodes = append(nodes, dkg.Node{Index: uint32(i), Public: suite.Point().Mul(x,nil)}) }
  nonce := dkg.GetNonce()
  auth := schnorr.NewScheme(suite)
  gens := make([]*dkg.DistKeyGenerator, n)
  for i:=0;i<n;i++{
    c := &dkg.Config{Suite: suite, Longterm: privs[i], NewNodes: nodes, Threshold: uint32(thr), Nonce: nonce, Auth: auth, FastSync: sc.fast}
    g, err := dkg.NewDistKeyHandler(c); if err != nil { panic(err) }
    gens[i] = g
  }
  signer := func(i int) func(p dkg.Packet) []byte { return func(p dkg.Packet) []byte { h,_ := p.Hash(); s,_ := auth.Sign(privs[i], h); return s } }
  var deals []*dkg.DealBundle
  for i:=0;i<n;i++{ b, err := gens[i].Deals(); if err != nil { panic(err) }
    if i == byz && sc.mutDeal != nil { deals = append(deals, sc.mutDeal(b, signer(i))...) } else { deals = append(deals, b) } }
  var resps []*dkg.ResponseBundle
  for i:=0;i<n;i++{
    // deep copy per recipient omitted (ProcessDeals doesn't mutate except sort)
    r, err := gens[i].ProcessDeals(deals)
    if err != nil { fmt.Printf("   node %d ProcessDeals err %v\n", i, err); continue }
    if i == byz && sc.falseComplaint { r = &dkg.ResponseBundle{ShareIndex: uint32(i), SessionID: nonce, Responses: []dkg.Response{{DealerIndex: 0, Status: dkg.Complaint}}}; r.Signature = signer(i)(r) }
    if r != nil { resps = append(resps, r) }
  }
  results := map[int]*dkg.Result{}
  var justs []*dkg.JustificationBundle
  for i:=0;i<n;i++{
    res, j, err := gens[i].ProcessResponses(resps)
    if err != nil { fmt.Printf("   node %d ProcessResponses err %v\n", i, err); continue }
    if res != nil { results[i] = res }
    if j != nil { if i == byz { if !sc.justify { continue }; if sc.mutJust != nil { j = sc.mutJust(j, signer(i)) } }; justs = append(justs, j) }
  }
  for i:=0;i<n;i++{
    if _, ok := results[i]; ok { continue }
    res, err := gens[i].ProcessJustifications(justs)
    if err != nil { fmt.Printf("   node %d ProcessJustifications err %v\n", i, err); continue }
    if res != nil { results[i] = res }
  }
  // compare honest
  var ref *dkg.Result; agree := true
  var shares []*share.PriShare
  for i:=0;i<n;i++{ if i == byz { continue }; r, ok := results[i]; if !ok { fmt.Printf("   honest node %d has no result\n", i); continue }
    q := []int{}; for _, nd := range r.QUAL { q = append(q, int(nd.Index)) }; sort.Ints(q)
    if ref == nil { ref = r; fmt.Printf("   node %d QUAL=%v\n", i, q) } else {
      q0 := []int{}; for _, nd := range ref.QUAL { q0 = append(q0, int(nd.Index)) }; sort.Ints(q0)
      if fmt.Sprint(q) != fmt.Sprint(q0) || len(r.Key.Commits) != len(ref.Key.Commits) { agree = false; fmt.Printf("   DISAGREE node %d QUAL=%v\n", i, q) } else { for k := range r.Key.Commits { if !r.Key.Commits[k].Equal(ref.Key.Commits[k]) { agree = false } } }
    }
    pp := share.NewPubPoly(suite, nil, r.Key.Commits)
    if !pp.Check(r.Key.Share) { fmt.Printf("   node %d share not on poly\n", i) }
    shares = append(shares, r.Key.Share)
  }
  if ref != nil && len(shares) >= thr { s, err := share.RecoverSecret(suite, shares, uint32(thr), uint32(n)); if err != nil { fmt.Println("   recover err", err) } else if !suite.Point().Mul(s,nil).Equal(ref.Key.Commits[0]) { fmt.Println("   RECOVERED SECRET MISMATCH") } }
  fmt.Printf("%s n=%d t=%d fast=%v: honest results=%d agree=%v\n", sc.name, n, thr, sc.fast, len(results), agree)
}
func TestDKG(t *testing.T){
  suite := edwards25519.NewBlakeSHA256Ed25519()
  badShare := func(b *dkg.DealBundle, sign func(p dkg.Packet) []byte) []*dkg.DealBundle { b.Deals[0].EncryptedShare = []byte("garbage garbage garbage garbage garbage garbage"); b.Signature = sign(b); return []*dkg.DealBundle{b} }
  for _, fast := range []bool{false, true} {
    runDKG(4,3,-1, scen{name:"honest", fast: fast})
    runDKG(4,3,3, scen{name:"badshare-nojust", mutDeal: badShare, fast: fast})
    runDKG(4,3,3, scen{name:"badshare-just", mutDeal: badShare, justify: true, fast: fast})
    runDKG(4,3,3, scen{name:"badshare-badjust", mutDeal: badShare, justify: true, fast: fast, mutJust: func(j *dkg.JustificationBundle, sign func(p dkg.Packet) []byte) *dkg.JustificationBundle { for i := range j.Justifications { j.Justifications[i].Share = suite.Scalar().Add(j.Justifications[i].Share, suite.Scalar().One()) }; j.Signature = sign(j); return j }})
    runDKG(4,3,3, scen{name:"absent-dealer", mutDeal: func(b *dkg.DealBundle, sign func(p dkg.Packet) []byte) []*dkg.DealBundle { return nil }, fast: fast})
    runDKG(4,3,3, scen{name:"dup-bundle", mutDeal: func(b *dkg.DealBundle, sign func(p dkg.Packet) []byte) []*dkg.DealBundle { return []*dkg.DealBundle{b, b} }, fast: fast})
    runDKG(4,3,3, scen{name:"wrong-threshold", mutDeal: func(b *dkg.DealBundle, sign func(p dkg.Packet) []byte) []*dkg.DealBundle { b.Public = b.Public[:2]; b.Signature = sign(b); return []*dkg.DealBundle{b} }, fast: fast})
    runDKG(4,3,3, scen{name:"false-complaint", falseComplaint: true, fast: fast})
    runDKG(5,3,4, scen{name:"false-complaint n5", falseComplaint: true, fast: fast})
  }
}
