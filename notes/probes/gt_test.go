package exp
import (
 "testing"
 "bytes"
 "encoding/hex"
 "go.dedis.ch/kyber/v4"
 "go.dedis.ch/kyber/v4/pairing"
 "go.dedis.ch/kyber/v4/pairing/bls12381/kilic"
 "go.dedis.ch/kyber/v4/pairing/bls12381/circl"
 "go.dedis.ch/kyber/v4/pairing/bls12381/gnark"
)
func TestGT(t *testing.T){
  ss := map[string]pairing.Suite{"kilic":kilic.NewBLS12381Suite(),"circl":circl.NewSuite(),"gnark":gnark.NewSuite()}
  var outs = map[string][]byte{}
  for n, s := range ss {
    a := s.G1().Scalar().SetInt64(5)
    p := s.G1().Point().Mul(a, nil)
    q := s.G2().Point().Mul(a, nil)
    e := s.Pair(p,q)
    b,_ := e.MarshalBinary()
    outs[n]=b
    sb,_ := a.MarshalBinary()
    pb,_ := p.MarshalBinary(); qb,_ := q.MarshalBinary()
    t.Logf("%s scalar=%s g1=%s.. g2=%s.. gt(%d)=%s..", n, hex.EncodeToString(sb), hex.EncodeToString(pb[:8]), hex.EncodeToString(qb[:8]), len(b), hex.EncodeToString(b[:16]))
    var _ kyber.Point = e
  }
  t.Logf("kilic==circl %v kilic==gnark %v circl==gnark %v", bytes.Equal(outs["kilic"],outs["circl"]), bytes.Equal(outs["kilic"],outs["gnark"]), bytes.Equal(outs["circl"],outs["gnark"]))
}
