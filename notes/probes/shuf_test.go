package exp
import (
 "testing"
 "fmt"
 "go.dedis.ch/kyber/v4"
 "go.dedis.ch/kyber/v4/group/edwards25519"
 "go.dedis.ch/kyber/v4/proof"
 "go.dedis.ch/kyber/v4/shuffle"
)
type fega1 struct { Gamma kyber.Point; A, C, U, W []kyber.Point; Lambda1, Lambda2 kyber.Point }
type fega2 struct { Zrho []kyber.Scalar }
type fega3 struct { D []kyber.Point }
type fega4 struct { Zlambda kyber.Scalar }
type fega5 struct { Zsigma []kyber.Scalar; Ztau kyber.Scalar }
func TestShuffleForge(t *testing.T){
  suite := edwards25519.NewBlakeSHA256Ed25519()
  rnd := suite.RandomStream()
  k := 2
  G := suite.Point().Base()
  h := suite.Scalar().Pick(rnd); H := suite.Point().Mul(h, nil)
  X := make([]kyber.Point,k); Y := make([]kyber.Point,k)
  for i := range X { r := suite.Scalar().Pick(rnd); X[i] = suite.Point().Mul(r,nil); Y[i] = suite.Point().Add(suite.Point().Mul(r,H), suite.Point().Pick(rnd)) }
  beta := []kyber.Scalar{suite.Scalar().Pick(rnd), suite.Scalar().Pick(rnd)}
  // outputs: Xbar0 = X0+X1+b0 G ; Xbar1 = X1 + b1 G  (M = [[1,1],[0,1]])
  Xbar := []kyber.Point{ suite.Point().Add(suite.Point().Add(X[0],X[1]), suite.Point().Mul(beta[0],G)), suite.Point().Add(X[1], suite.Point().Mul(beta[1],G)) }
  Ybar := []kyber.Point{ suite.Point().Add(suite.Point().Add(Y[0],Y[1]), suite.Point().Mul(beta[0],H)), suite.Point().Add(Y[1], suite.Point().Mul(beta[1],H)) }
  prover := func(ctx proof.ProverContext) error {
    gamma := suite.Scalar().Pick(rnd)
    p1 := &fega1{Gamma: suite.Point().Mul(gamma,G), Lambda1: suite.Point().Null(), Lambda2: suite.Point().Null()}
    w := make([]kyber.Scalar,k)
    for i:=0;i<k;i++{ p1.A = append(p1.A, suite.Point().Pick(rnd)); p1.C = append(p1.C, suite.Point().Pick(rnd)); p1.U = append(p1.U, suite.Point().Pick(rnd)); w[i]=suite.Scalar().Pick(rnd); p1.W = append(p1.W, suite.Point().Mul(w[i],G)) }
    if err := ctx.Put(p1); err != nil { return err }
    v2 := &fega2{Zrho: make([]kyber.Scalar,k)}
    if err := ctx.PubRand(v2); err != nil { return err }
    rho := v2.Zrho
    // sigma*M = rho with M=[[1,1],[0,1]]: sigma0 = rho0 ; sigma0+sigma1 = rho1 => sigma1 = rho1-rho0
    sigma := []kyber.Scalar{ rho[0].Clone(), suite.Scalar().Sub(rho[1], rho[0]) }
    p3 := &fega3{}
    for i:=0;i<k;i++{ p3.D = append(p3.D, suite.Point().Sub(suite.Point().Mul(sigma[i], p1.Gamma), p1.W[i])) }
    if err := ctx.Put(p3); err != nil { return err }
    v4 := &fega4{}
    if err := ctx.PubRand(v4); err != nil { return err }
    tau := suite.Scalar().Zero()
    for i:=0;i<k;i++{ tau.Add(tau, suite.Scalar().Mul(sigma[i], beta[i])) }
    if err := ctx.Put(&fega5{Zsigma: sigma, Ztau: tau}); err != nil { return err }
    ss := shuffle.SimpleShuffle{}; ss.Init(suite, k)
    x := []kyber.Scalar{suite.Scalar().Pick(rnd), suite.Scalar().Pick(rnd)}
    y := []kyber.Scalar{suite.Scalar().Mul(gamma,x[1]), suite.Scalar().Mul(gamma,x[0])}
    return ss.Prove(G, gamma, x, y, rnd, ctx)
  }
  prf, err := proof.HashProve(suite, "PairShuffle", prover)
  fmt.Println("forge prove err:", err, "len", len(prf))
  verifier := shuffle.Verifier(suite, G, H, X, Y, Xbar, Ybar)
  err = proof.HashVerify(suite, "PairShuffle", verifier, prf)
  fmt.Println("VERIFY of forged non-permutation shuffle: err =", err)
}
