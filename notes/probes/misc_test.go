package exp
import (
 "testing"
 "fmt"
 "bytes"
 "crypto/cipher"
 "go.dedis.ch/kyber/v4"
 "go.dedis.ch/kyber/v4/group/edwards25519"
 "go.dedis.ch/kyber/v4/group/p256"
 "go.dedis.ch/kyber/v4/sign/anon"
 "go.dedis.ch/kyber/v4/util/random"
 "go.dedis.ch/kyber/v4/xof/blake2xb"
)
type prefixStream struct { prefix []byte; rest cipher.Stream }
func (p *prefixStream) XORKeyStream(dst, src []byte) {
  for i := range src {
    if len(p.prefix) > 0 { dst[i] = src[i] ^ p.prefix[0]; p.prefix = p.prefix[1:] } else { var b [1]byte; p.rest.XORKeyStream(b[:], b[:]); dst[i] = src[i]^b[0] }
  }
}
func TestMisc(t *testing.T){
  suite := edwards25519.NewBlakeSHA256Ed25519()
  // anon MAC forgery
  x := suite.Scalar().Pick(random.New()); X := suite.Point().Mul(x,nil)
  set := anon.Set{X}
  msg := []byte("attack at dawn, pay 100 to alice")
  ct, _ := anon.Encrypt(suite, msg, set)
  hdrlen := 32 + 32
  body := ct[hdrlen:len(ct)-16]
  body[len(body)-1] ^= 1
  mac := ct[len(ct)-16:]
  xf := suite.XOF(body); xf.Read(mac)
  pt, err := anon.Decrypt(suite, ct, set, 0, x)
  fmt.Printf("anon forged: err=%v pt=%q\n", err, pt)
  // p256 embed with 0xff prefix
  ps := p256.NewBlakeSHA256P256()
  found := 0
  for i:=0;i<64;i++{
    st := &prefixStream{prefix: bytes.Repeat([]byte{0xff}, 5), rest: blake2xb.New([]byte{byte(i)})}
    P := ps.Point().Pick(st)
    func(){ defer func(){ if r := recover(); r != nil { found++; if found==1 { fmt.Println("p256 Pick(0xff-prefix stream) then Mul PANIC:", r) } } }()
      ps.Point().Mul(ps.Scalar().SetInt64(2), P) }()
  }
  fmt.Println("p256 pick-with-ff-prefix panics:", found, "/64")
  func(){ defer func(){ if r := recover(); r != nil { fmt.Println("Bits(0,true) PANIC:", r) } }(); fmt.Println(random.Bits(0,true,random.New())) }()
  var _ kyber.Point
}
