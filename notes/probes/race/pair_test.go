package race
import (
 "testing"
 "sync"
 "go.dedis.ch/kyber/v4/pairing"
 "go.dedis.ch/kyber/v4/pairing/bn256"
 "go.dedis.ch/kyber/v4/pairing/bn254"
 "go.dedis.ch/kyber/v4/pairing/bls12381/kilic"
 "go.dedis.ch/kyber/v4/pairing/bls12381/circl"
 "go.dedis.ch/kyber/v4/pairing/bls12381/gnark"
 "go.dedis.ch/kyber/v4/util/random"
 "go.dedis.ch/kyber/v4/sign/bls"
 "go.dedis.ch/kyber/v4/sign/bdn"
 "go.dedis.ch/kyber/v4"
)
func TestPairRace(t *testing.T){
  for n, s := range map[string]pairing.Suite{"bn256":bn256.NewSuite(),"bn254":bn254.NewSuite(),"kilic":kilic.NewBLS12381Suite(),"circl":circl.NewSuite(),"gnark":gnark.NewSuite()} {
    a := s.G1().Scalar().Pick(random.New())
    P := s.G1().Point().Mul(a,nil); P.Add(P, s.G1().Point().Base())
    Q := s.G2().Point().Mul(a,nil); Q.Add(Q, s.G2().Point().Base())
    sch := bls.NewSchemeOnG1(s)
    sk, pk := sch.NewKeyPair(random.New())
    sig, _ := sch.Sign(sk, []byte("m"))
    bsch := bdn.NewSchemeOnG1(s)
    _, pk2 := bsch.NewKeyPair(random.New())
    mask, _ := bdn.NewMask(s.G2(), []kyber.Point{pk, pk2}, nil)
    var wg sync.WaitGroup
    for i:=0;i<8;i++{ wg.Add(1); go func(){ defer wg.Done(); for j:=0;j<5;j++{ s.Pair(P,Q); s.ValidatePairing(P,Q,P,Q); if err := sch.Verify(pk, []byte("m"), sig); err != nil { t.Error(n, err) }; c := mask.Clone(); c.SetBit(0,true); bsch.AggregatePublicKeys(c) } }() }
    wg.Wait()
    t.Log(n, "done")
  }
}
