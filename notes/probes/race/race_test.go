package race
import (
 "testing"
 "sync"
 "bytes"
 "go.dedis.ch/kyber/v4"
 "go.dedis.ch/kyber/v4/group/edwards25519vartime"
 "go.dedis.ch/kyber/v4/group/edwards25519"
 "go.dedis.ch/kyber/v4/group/p256"
 "go.dedis.ch/kyber/v4/pairing/bn256"
 "go.dedis.ch/kyber/v4/pairing/bn254"
 "go.dedis.ch/kyber/v4/pairing/bls12381/kilic"
 "go.dedis.ch/kyber/v4/util/random"
)
func hammer(t *testing.T, name string, g kyber.Group) {
  a := g.Scalar().Pick(random.New())
  P := g.Point().Mul(a, nil)
  P.Add(P, g.Point().Pick(random.New()))
  ref,_ := P.Clone().MarshalBinary()
  var wg sync.WaitGroup
  bad := 0; var mu sync.Mutex
  for i:=0;i<8;i++{ wg.Add(1); go func(){ defer wg.Done(); for j:=0;j<50;j++{ b,_ := P.MarshalBinary(); _ = P.String(); _ = P.Equal(P); if !bytes.Equal(b,ref){ mu.Lock(); bad++; mu.Unlock() } } }() }
  wg.Wait()
  t.Logf("%s mismatches=%d", name, bad)
}
func TestRace(t *testing.T){
  hammer(t, "edvartime", edwards25519vartime.NewBlakeSHA256Ed25519(false))
  hammer(t, "ed25519", edwards25519.NewBlakeSHA256Ed25519())
  hammer(t, "p256", p256.NewBlakeSHA256P256())
  hammer(t, "qr", p256.NewBlakeSHA256QR512())
  hammer(t, "bn256g1", bn256.NewSuite().G1())
  hammer(t, "bn256g2", bn256.NewSuite().G2())
  hammer(t, "bn254g1", bn254.NewSuite().G1())
  hammer(t, "bn254g2", bn254.NewSuite().G2())
  hammer(t, "kilicg1", kilic.NewBLS12381Suite().G1())
  hammer(t, "kilicg2", kilic.NewBLS12381Suite().G2())
}
