package exp
import (
 "testing"
 "fmt"
 "bytes"
 "go.dedis.ch/kyber/v4"
 "go.dedis.ch/kyber/v4/util/random"
)
func enc(p kyber.Point) []byte { b,_ := p.MarshalBinary(); return b }
func encS(p kyber.Scalar) []byte { b,_ := p.MarshalBinary(); return b }
func TestAlias(t *testing.T){
  for _, G := range groups() {
    g := G.g
    rnd := random.New()
    mk := func() kyber.Point { return g.Point().Mul(g.Scalar().Pick(rnd), G.base()) }
    report := func(what string, ok bool) { if !ok { fmt.Printf("  %s: %s\n", G.name, what) } }
    func(){
      defer func(){ if r := recover(); r != nil { fmt.Printf("  %s: PANIC %v\n", G.name, r) } }()
      type binop struct{ n string; f func(r,a,b kyber.Point) kyber.Point }
      ops := []binop{{"Add", func(r,a,b kyber.Point) kyber.Point { return r.Add(a,b) }}, {"Sub", func(r,a,b kyber.Point) kyber.Point { return r.Sub(a,b) }}}
      for _, op := range ops {
        a, b := mk(), mk()
        want := enc(op.f(g.Point(), a.Clone(), b.Clone()))
        // r = a
        a1, b1 := a.Clone(), b.Clone(); ret := op.f(a1, a1, b1)
        report(op.n+" r=a result", bytes.Equal(enc(a1), want) && bytes.Equal(enc(ret), want)); report(op.n+" r=a operand b intact", bytes.Equal(enc(b1), enc(b)))
        // r = b
        a1, b1 = a.Clone(), b.Clone(); ret = op.f(b1, a1, b1)
        report(op.n+" r=b result", bytes.Equal(enc(b1), want) && bytes.Equal(enc(ret), want)); report(op.n+" r=b operand a intact", bytes.Equal(enc(a1), enc(a)))
        // a = b
        a1 = a.Clone(); want2 := enc(op.f(g.Point(), a.Clone(), a.Clone())); r := g.Point(); ret = op.f(r, a1, a1)
        report(op.n+" a=b", bytes.Equal(enc(r), want2) && bytes.Equal(enc(ret), want2) && bytes.Equal(enc(a1), enc(a)))
        // r=a=b
        a1 = a.Clone(); ret = op.f(a1,a1,a1); report(op.n+" r=a=b", bytes.Equal(enc(a1), want2) && bytes.Equal(enc(ret), want2))
        // fresh receiver: receiver == ret
        a1, b1 = a.Clone(), b.Clone(); r = mk(); ret = op.f(r, a1, b1); report(op.n+" fresh: receiver set", bytes.Equal(enc(r), want) && bytes.Equal(enc(ret), want))
      }
      // Neg
      a := mk(); wantN := enc(g.Point().Neg(a.Clone())); a1 := a.Clone(); ret := a1.Neg(a1); report("Neg r=a", bytes.Equal(enc(a1), wantN) && bytes.Equal(enc(ret), wantN))
      r := mk(); a1 = a.Clone(); ret = r.Neg(a1); report("Neg fresh receiver set", bytes.Equal(enc(r), wantN) && bytes.Equal(enc(a1), enc(a)))
      // Mul
      s := g.Scalar().Pick(rnd); wantM := enc(g.Point().Mul(s.Clone(), a.Clone())); a1 = a.Clone(); s1 := s.Clone(); ret = a1.Mul(s1, a1)
      report("Mul r=p", bytes.Equal(enc(a1), wantM) && bytes.Equal(enc(ret), wantM) && bytes.Equal(encS(s1), encS(s)))
      r = mk(); a1 = a.Clone(); ret = r.Mul(s1, a1); report("Mul fresh receiver set, operand intact", bytes.Equal(enc(r), wantM) && bytes.Equal(enc(a1), enc(a)))
      // Null / Base / Set / Clone
      r = mk(); ret = r.Null(); report("Null sets receiver", bytes.Equal(enc(r), enc(ret)) && bytes.Equal(enc(r), enc(g.Point().Null())))
      func(){ defer func(){ if x := recover(); x != nil { fmt.Printf("  %s: Base panic: %v\n", G.name, x) } }()
        r = mk(); ret = r.Base(); report("Base sets receiver", bytes.Equal(enc(r), enc(ret)) && bytes.Equal(enc(r), enc(G.base()))) }()
      a = mk(); c := a.Clone(); c.Null(); report("Clone independent (Null on clone)", !bytes.Equal(enc(a), enc(g.Point().Null())))
      a = mk(); ea := enc(a); c = a.Clone(); c.Add(c, mk()); report("Clone independent (Add on clone)", bytes.Equal(enc(a), ea))
      a = mk(); ea = enc(a); c = g.Point().Set(a); c.Neg(c); report("Set independent (Neg on copy)", bytes.Equal(enc(a), ea))
      a = mk(); ea = enc(a); c = g.Point().Set(a); a.Null(); report("Set independent (Null on source)", bytes.Equal(enc(c), ea))
      a = mk(); ea = enc(a); c = a.Clone(); a.Mul(s, a); report("Clone independent (Mul on source)", bytes.Equal(enc(c), ea))
      // scalars
      x, y := g.Scalar().Pick(rnd), g.Scalar().Pick(rnd)
      for _, op := range []struct{n string; f func(r,a,b kyber.Scalar) kyber.Scalar}{{"sAdd", func(r,a,b kyber.Scalar) kyber.Scalar { return r.Add(a,b)}}, {"sSub", func(r,a,b kyber.Scalar) kyber.Scalar { return r.Sub(a,b)}}, {"sMul", func(r,a,b kyber.Scalar) kyber.Scalar { return r.Mul(a,b)}}, {"sDiv", func(r,a,b kyber.Scalar) kyber.Scalar { return r.Div(a,b)}}} {
        want := encS(op.f(g.Scalar(), x.Clone(), y.Clone()))
        x1,y1 := x.Clone(), y.Clone(); ret := op.f(x1,x1,y1); report(op.n+" r=a", bytes.Equal(encS(x1),want) && bytes.Equal(encS(ret),want) && bytes.Equal(encS(y1), encS(y)))
        x1,y1 = x.Clone(), y.Clone(); ret = op.f(y1,x1,y1); report(op.n+" r=b", bytes.Equal(encS(y1),want) && bytes.Equal(encS(ret),want) && bytes.Equal(encS(x1), encS(x)))
        want2 := encS(op.f(g.Scalar(), x.Clone(), x.Clone())); x1 = x.Clone(); ret = op.f(x1,x1,x1); report(op.n+" r=a=b", bytes.Equal(encS(x1),want2))
      }
      x1 := x.Clone(); wantI := encS(g.Scalar().Inv(x.Clone())); x1.Inv(x1); report("sInv r=a", bytes.Equal(encS(x1), wantI))
      x1 = x.Clone(); wantNg := encS(g.Scalar().Neg(x.Clone())); x1.Neg(x1); report("sNeg r=a", bytes.Equal(encS(x1), wantNg))
      x1 = x.Clone(); cx := x1.Clone(); cx.Zero(); report("sClone independent", bytes.Equal(encS(x1), encS(x)))
      x1 = x.Clone(); cx = g.Scalar().Set(x1); x1.One(); report("sSet independent", bytes.Equal(encS(cx), encS(x)))
    }()
  }
}
