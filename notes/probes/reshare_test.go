package exp
import (
 "testing"
 "fmt"
 "go.dedis.ch/kyber/v4"
 "go.dedis.ch/kyber/v4/group/edwards25519"
 "go.dedis.ch/kyber/v4/share"
 dkg "go.dedis.ch/kyber/v4/share/dkg/pedersen"
 "go.dedis.ch/kyber/v4/sign/schnorr"
 "go.dedis.ch/kyber/v4/util/random"
)
// run executes one (fresh or resharing) DKG over configs and returns the results by key of node public string
func runConfigs(cfgs []*dkg.Config, drop map[int]bool) map[int]*dkg.Result {
  gens := make([]*dkg.DistKeyGenerator, len(cfgs))
  for i, c := range cfgs { g, err := dkg.NewDistKeyHandler(c); if err != nil { panic(err) }; gens[i] = g }
  var deals []*dkg.DealBundle
  for i, g := range gens { if drop[i] { continue }; b, err := g.Deals(); if err == nil && b != nil { deals = append(deals, b) } }
  var resps []*dkg.ResponseBundle
  for i, g := range gens { if drop[i] { continue }; r, err := g.ProcessDeals(deals); if err != nil { fmt.Println("  ProcessDeals", i, err) }; if r != nil { resps = append(resps, r) } }
  res := map[int]*dkg.Result{}
  var justs []*dkg.JustificationBundle
  for i, g := range gens { if drop[i] { continue }; r, j, err := g.ProcessResponses(resps); if err != nil { fmt.Println("  ProcessResponses", i, err) }; if r != nil { res[i] = r }; if j != nil { justs = append(justs, j) } }
  for i, g := range gens { if drop[i] { continue }; if _, ok := res[i]; ok { continue }; r, err := g.ProcessJustifications(justs); if err != nil { fmt.Println("  ProcessJustifications", i, err) }; if r != nil { res[i] = r } }
  return res
}
func TestReshare(t *testing.T){
  suite := edwards25519.NewBlakeSHA256Ed25519()
  auth := schnorr.NewScheme(suite)
  mk := func(n int) ([]kyber.Scalar, []dkg.Node) { var p []kyber.Scalar; var nodes []dkg.Node; for i:=0;i<n;i++{ x := suite.Scalar().Pick(random.New()); p = append(p,x); nodes = append(nodes, dkg.Node{Index: uint32(i), Public: suite.Point().Mul(x,nil)}) }; return p, nodes }
  oldPriv, oldNodes := mk(4)
  nonce := dkg.GetNonce()
  var cfgs []*dkg.Config
  for i := range oldNodes { cfgs = append(cfgs, &dkg.Config{Suite: suite, Longterm: oldPriv[i], NewNodes: oldNodes, Threshold: 3, Nonce: nonce, Auth: auth}) }
  res := runConfigs(cfgs, nil)
  pub := res[0].Key.Public()
  fmt.Println("fresh dkg results:", len(res))
  for _, shape := range []string{"same", "grow", "shrink+new", "disjoint"} {
    var newPriv []kyber.Scalar; var newNodes []dkg.Node
    switch shape {
    case "same": newPriv, newNodes = oldPriv, oldNodes
    case "grow": p, n := mk(2); newPriv = append(append([]kyber.Scalar{}, oldPriv...), p...); newNodes = append([]dkg.Node{}, oldNodes...); for i := range n { n[i].Index = uint32(len(oldNodes)+i); newNodes = append(newNodes, n[i]) }
    case "shrink+new": p, n := mk(2); newPriv = append([]kyber.Scalar{oldPriv[0], oldPriv[1]}, p...); newNodes = []dkg.Node{oldNodes[0], oldNodes[1]}; for i := range n { n[i].Index = uint32(2+i); newNodes = append(newNodes, n[i]) }
    case "disjoint": newPriv, newNodes = mk(5)
    }
    newT := uint32(len(newNodes)/2 + 1)
    nonce2 := dkg.GetNonce()
    var cf []*dkg.Config
    seen := map[string]bool{}
    for i := range oldNodes { c := &dkg.Config{Suite: suite, Longterm: oldPriv[i], OldNodes: oldNodes, NewNodes: newNodes, Share: res[i].Key, Threshold: newT, OldThreshold: 3, Nonce: nonce2, Auth: auth}; cf = append(cf, c); seen[oldNodes[i].Public.String()] = true }
    for i := range newNodes { if seen[newNodes[i].Public.String()] { continue }; c := &dkg.Config{Suite: suite, Longterm: newPriv[i], OldNodes: oldNodes, NewNodes: newNodes, PublicCoeffs: res[0].Key.Commits, Threshold: newT, OldThreshold: 3, Nonce: nonce2, Auth: auth}; cf = append(cf, c) }
    r2 := runConfigs(cf, nil)
    var shares []*share.PriShare; agree := true; var ref *dkg.Result
    for _, r := range r2 { if ref == nil { ref = r }; if !r.Key.Public().Equal(pub) { agree = false }; if !ref.PublicEqual(r) { agree = false }
      if !share.NewPubPoly(suite, nil, r.Key.Commits).Check(r.Key.Share) { fmt.Println("   share off poly") }; shares = append(shares, r.Key.Share) }
    s, err := share.RecoverSecret(suite, shares, newT, uint32(len(newNodes)))
    ok := err == nil && suite.Point().Mul(s,nil).Equal(pub)
    fmt.Printf("reshare %-11s newN=%d newT=%d results=%d agree&unchanged=%v recover=%v\n", shape, len(newNodes), newT, len(r2), agree, ok)
  }
}
