package exp
import (
 "testing"
 "fmt"
 "go.dedis.ch/kyber/v4/pairing"
 "go.dedis.ch/kyber/v4/pairing/bn256"
 "go.dedis.ch/kyber/v4/pairing/bn254"
 "go.dedis.ch/kyber/v4/pairing/bls12381/kilic"
 "go.dedis.ch/kyber/v4/pairing/bls12381/circl"
 "go.dedis.ch/kyber/v4/pairing/bls12381/gnark"
 "go.dedis.ch/kyber/v4/util/random"
)
func TestPairing(t *testing.T){
  for n, s := range map[string]pairing.Suite{"bn256":bn256.NewSuite(),"bn254":bn254.NewSuite(),"kilic":kilic.NewBLS12381Suite(),"circl":circl.NewSuite(),"gnark":gnark.NewSuite()} {
    func(){
      defer func(){ if r := recover(); r != nil { fmt.Println(n, "PANIC", r) } }()
      rnd := random.New()
      g1, g2 := s.G1().Point().Base(), s.G2().Point().Base()
      o1, o2 := s.G1().Point().Null(), s.G2().Point().Null()
      one := s.GT().Point().Null()
      e := s.Pair(g1,g2)
      chk := func(what string, ok bool) { if !ok { fmt.Println(n, "FAIL", what) } }
      chk("nondegenerate", !e.Equal(one))
      chk("e(O,Q)=1", s.Pair(o1,g2).Equal(one)); chk("e(P,O)=1", s.Pair(g1,o2).Equal(one)); chk("e(O,O)=1", s.Pair(o1,o2).Equal(one))
      for i := 0; i < 5; i++ {
        a, b := s.G1().Scalar().Pick(rnd), s.G1().Scalar().Pick(rnd)
        if i == 0 { a.Zero() }; if i == 1 { b.One(); a.Neg(b) }
        P := s.G1().Point().Mul(a, nil); Q := s.G2().Point().Mul(b, nil)
        // non-normalised
        P2 := s.G1().Point().Add(P, g1); P2.Sub(P2, g1)
        Q2 := s.G2().Point().Add(Q, g2); Q2.Sub(Q2, g2)
        ab := s.G1().Scalar().Mul(a,b)
        want := s.GT().Point().Mul(ab, e)
        chk(fmt.Sprintf("bilinear %d", i), s.Pair(P,Q).Equal(want))
        chk(fmt.Sprintf("bilinear nonnorm %d", i), s.Pair(P2,Q2).Equal(want))
        chk(fmt.Sprintf("additive %d", i), s.Pair(s.G1().Point().Add(P,g1), Q).Equal(s.GT().Point().Add(s.Pair(P,Q), s.Pair(g1,Q))))
        chk(fmt.Sprintf("validate true %d", i), s.ValidatePairing(P, g2, g1, s.G2().Point().Mul(a,nil)))
        chk(fmt.Sprintf("validate nonnorm true %d", i), s.ValidatePairing(P2, Q2, s.G1().Point().Mul(ab,nil), g2))
        chk(fmt.Sprintf("validate false %d", i), i < 2 || !s.ValidatePairing(P, g2, g1, Q))
        chk(fmt.Sprintf("validate identity %d", i), s.ValidatePairing(o1, Q, P, o2))
      }
      fmt.Println(n, "done")
    }()
  }
}
