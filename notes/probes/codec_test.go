package exp
import (
 "testing"
 "fmt"
 "bytes"
 "encoding/hex"
 "math/big"
 "go.dedis.ch/kyber/v4"
 kenc "go.dedis.ch/kyber/v4/util/encoding"
 "go.dedis.ch/kyber/v4/util/random"
)
func TestCodec(t *testing.T){
  for _, G := range groups() {
    g := G.g; issues := map[string]int{}; n := 0
    func(){ defer func(){ if r := recover(); r != nil { issues[fmt.Sprintf("PANIC %v", r)]++ } }()
    q := g.Scalar().GroupOrder().ToBigInt()
    B := G.base()
    var pts []kyber.Point
    pts = append(pts, g.Point().Null(), B, g.Point().Neg(B), g.Point().Add(B,B), g.Point().Sub(B,B), g.Point().Neg(g.Point().Null()))
    for i := 0; i < 20; i++ { s := g.Scalar().Pick(random.New()); p := g.Point().Mul(s, B); pts = append(pts, p, g.Point().Add(p, B), g.Point().Sub(g.Point().Add(p,B), B)) }
    for _, p := range pts { n++
      b1, err := p.MarshalBinary(); if err != nil { issues["marshal err"]++; continue }
      if len(b1) != g.PointLen() || len(b1) != p.MarshalSize() { issues[fmt.Sprintf("len %d vs PointLen %d size %d", len(b1), g.PointLen(), p.MarshalSize())]++ }
      p2 := g.Point(); if err := p2.UnmarshalBinary(b1); err != nil { issues["decode own encoding: "+err.Error()]++; continue }
      if !p2.Equal(p) || !p.Equal(p2) { issues["roundtrip not equal"]++ }
      b2,_ := p2.MarshalBinary(); if !bytes.Equal(b1,b2) { issues["re-encode differs"]++ }
      b3,_ := p.MarshalBinary(); if !bytes.Equal(b1,b3) { issues["second encode differs"]++ }
      var w bytes.Buffer; k, err := p.MarshalTo(&w); if err != nil || k != len(b1) || !bytes.Equal(w.Bytes(), b1) { issues["MarshalTo"]++ }
      p3 := g.Point(); k, err = p3.UnmarshalFrom(bytes.NewReader(append(append([]byte{}, b1...), 0xAA))); if err != nil || k != len(b1) || !p3.Equal(p) { issues[fmt.Sprintf("UnmarshalFrom k=%d err=%v", k, err)]++ }
      hs, err := kenc.PointToStringHex(g, p); if err != nil || hs != hex.EncodeToString(b1) { issues["hex enc"]++ }
      p4, err := kenc.StringHexToPoint(g, hs); if err != nil || !p4.Equal(p) { issues["hex dec"]++ }
    }
    // equal values via different routes have identical bytes
    a := g.Scalar().Pick(random.New()); b := g.Scalar().Pick(random.New())
    r1 := g.Point().Add(g.Point().Mul(a,B), g.Point().Mul(b,B)); r2 := g.Point().Mul(g.Scalar().Add(a,b), B)
    e1,_ := r1.MarshalBinary(); e2,_ := r2.MarshalBinary(); if !r1.Equal(r2) || !bytes.Equal(e1,e2) { issues["equal values, different bytes"]++ }
    for _, v := range []*big.Int{big.NewInt(0), big.NewInt(1), big.NewInt(255), new(big.Int).Sub(q,big.NewInt(1)), new(big.Int).Lsh(big.NewInt(1), 200)} {
      bb := leftpad(v.Bytes(), g.ScalarLen()); s := g.Scalar(); if s.ByteOrder()==kyber.LittleEndian { bb = rev(bb) }
      if err := s.UnmarshalBinary(bb); err != nil { issues["scalar decode "+err.Error()]++; continue }
      o,_ := s.MarshalBinary(); if !bytes.Equal(o, bb) || len(o) != g.ScalarLen() || s.MarshalSize() != g.ScalarLen() { issues[fmt.Sprintf("scalar roundtrip %v", v)]++ }
      hs,_ := kenc.ScalarToStringHex(g, s); s2, err := kenc.StringHexToScalar(g, hs); if err != nil || !s2.Equal(s) { issues["scalar hex"]++ }
    }}()
    fmt.Printf("%-10s points=%d issues=%v\n", G.name, n, issues)
  }
}
