package exp
import (
 "testing"
 "fmt"
 "bytes"
 "math/big"
 "math/rand"
 "go.dedis.ch/kyber/v4"
 "go.dedis.ch/kyber/v4/xof/blake2xb"
 "go.dedis.ch/kyber/v4/xof/blake2xs"
 "go.dedis.ch/kyber/v4/xof/keccak"
 "go.dedis.ch/kyber/v4/util/random"
 "go.dedis.ch/kyber/v4/compatible/compatiblemod"
)
func TestXOF(t *testing.T){
  rng := rand.New(rand.NewSource(4))
  for name, f := range map[string]func([]byte) kyber.XOF{"blake2xb":blake2xb.New,"blake2xs":blake2xs.New,"keccak":keccak.New} {
    issues := map[string]int{}
    for iter := 0; iter < 300; iter++ {
      seed := make([]byte, rng.Intn(301)); rng.Read(seed)
      a, b := f(seed), f(seed)
      var outA, outB []byte
      canWrite := true
      func(){ defer func(){ if r := recover(); r != nil { issues[fmt.Sprintf("PANIC %v", r)]++ } }()
      for step := 0; step < 20; step++ {
        switch rng.Intn(6) {
        case 0: if canWrite { d := make([]byte, rng.Intn(100)); rng.Read(d); a.Write(d); b.Write(d) }
        case 1,2: n := rng.Intn(600); ba := make([]byte, n); a.Read(ba); outA = append(outA, ba...); // b reads in chunks
           got := 0; for got < n { c := 1 + rng.Intn(n-got); bb := make([]byte, c); b.Read(bb); outB = append(outB, bb...); got += c }; canWrite = false
        case 3: n := rng.Intn(200); src := make([]byte, n); rng.Read(src); dst := make([]byte, n); a.XORKeyStream(dst, src); for i := range dst { dst[i] ^= src[i] }; outA = append(outA, dst...); bb := make([]byte, n); b.Read(bb); outB = append(outB, bb...); canWrite = false
        case 4: a.Reseed(); b.Reseed(); canWrite = true
        case 5: c := a.Clone(); ca := make([]byte, 64); cb := make([]byte, 64); c.Read(ca); a.Read(cb); if !bytes.Equal(ca, cb) { issues["clone diverges"]++ }; outA = append(outA, cb...); bb := make([]byte, 64); b.Read(bb); outB = append(outB, bb...); canWrite = false
        }
      }}()
      if !bytes.Equal(outA, outB) { issues["chunking/xor mismatch"]++ }
      // reset without reseed
      x := f(seed); r1 := make([]byte, 100); x.Read(r1); x.Reset(); r2 := make([]byte, 100); x.Read(r2); if !bytes.Equal(r1,r2) { issues["reset"]++ }
    }
    fmt.Println(name, issues)
  }
  // random.Int reference
  issues := map[string]int{}
  for bits := 1; bits <= 521; bits++ {
    for _, kind := range []int{0,1,2,3} {
      M := new(big.Int).Lsh(big.NewInt(1), uint(bits-1))
      switch kind { case 1: M.Sub(new(big.Int).Lsh(big.NewInt(1), uint(bits)), big.NewInt(1)); case 2: M.Add(M, big.NewInt(1)); case 3: M.Add(M, new(big.Int).Rand(rng, M)) }
      if M.Sign() == 0 { continue }
      if M.BitLen() != bits { continue }
      seed := []byte{byte(bits), byte(kind)}
      func(){ defer func(){ if r := recover(); r != nil { issues[fmt.Sprintf("PANIC M=%v: %v", M, r)]++ } }()
      got := random.Int(compatiblemod.FromBigInt(M), blake2xb.New(seed)).ToBigInt()
      st := blake2xb.New(seed)
      var want *big.Int
      for { b := make([]byte, (bits+7)/8); st.XORKeyStream(b,b); if bits%8 != 0 { b[0] &= byte(0xff >> (8 - uint(bits%8))) }; v := new(big.Int).SetBytes(b); if v.Cmp(M) < 0 { want = v; break } }
      if got.Cmp(want) != 0 { issues[fmt.Sprintf("int mismatch bits=%d kind=%d", bits, kind)]++ }
      if got.Cmp(M) >= 0 { issues["out of range"]++ } }()
    }
  }
  fmt.Println("random.Int", issues)
}
