package exp
import (
 "testing"
 "fmt"
 "bytes"
 "math/rand"
 "go.dedis.ch/kyber/v4"
 "go.dedis.ch/kyber/v4/group/edwards25519"
 "go.dedis.ch/kyber/v4/group/edwards25519vartime"
 "go.dedis.ch/kyber/v4/group/p256"
 "go.dedis.ch/kyber/v4/encrypt/ecies"
 "go.dedis.ch/kyber/v4/encrypt/ibe"
 "go.dedis.ch/kyber/v4/pairing"
 "go.dedis.ch/kyber/v4/pairing/bls12381/kilic"
 "go.dedis.ch/kyber/v4/pairing/bls12381/circl"
 "go.dedis.ch/kyber/v4/pairing/bls12381/gnark"
 "go.dedis.ch/kyber/v4/sign/anon"
 "go.dedis.ch/kyber/v4/util/random"
)
func TestEnc(t *testing.T){
  rng := rand.New(rand.NewSource(6))
  lens := []int{0,1,15,16,17,31,32,33,64,255,1024}
  for name, g := range map[string]kyber.Group{"ed": edwards25519.NewBlakeSHA256Ed25519(), "edv": edwards25519vartime.NewBlakeSHA256Ed25519(false), "edvfull": edwards25519vartime.NewBlakeSHA256Ed25519(true), "qr": p256.NewBlakeSHA256QR512()} {
    issues := map[string]int{}; n := 0
    func(){ defer func(){ if r := recover(); r != nil { issues[fmt.Sprintf("PANIC %v", r)]++ } }()
    x := g.Scalar().Pick(random.New()); X := g.Point().Mul(x,nil); y := g.Scalar().Pick(random.New())
    for _, l := range lens {
      msg := make([]byte, l); rng.Read(msg)
      ct, err := ecies.Encrypt(g, X, msg, nil); if err != nil { issues["enc err"]++; continue }
      pt, err := ecies.Decrypt(g, x, ct, nil); if err != nil || !bytes.Equal(pt,msg) { issues["roundtrip"]++ }
      if _, err := ecies.Decrypt(g, y, ct, nil); err == nil { issues["wrong key accepted"]++ }
      for k := 0; k < 120; k++ { m := append([]byte{}, ct...); bit := rng.Intn(len(m)*8); m[bit/8] ^= 1<<(bit%8); n++
        func(){ defer func(){ if r := recover(); r != nil { issues[fmt.Sprintf("PANIC flip %v", r)]++ } }(); if p2, err := ecies.Decrypt(g, x, m, nil); err == nil { issues[fmt.Sprintf("flip accepted same=%v", bytes.Equal(p2,msg))]++ } }() }
      for cut := 0; cut < len(ct); cut += 1 + len(ct)/40 { if _, err := ecies.Decrypt(g, x, ct[:cut], nil); err == nil { issues["truncation accepted"]++ } }
      if l >= 16 { for off := 0; off+16 <= l; off += 16 { if bytes.Contains(ct, msg[off:off+16]) { issues["plaintext block in ct"]++ } } }
    }}()
    fmt.Println("ecies", name, "flips", n, issues)
  }
  for name, s := range map[string]pairing.Suite{"kilic": kilic.NewBLS12381Suite(), "circl": circl.NewSuite(), "gnark": gnark.NewSuite()} {
    issues := map[string]int{}
    func(){ defer func(){ if r := recover(); r != nil { issues[fmt.Sprintf("PANIC %v", r)]++ } }()
    ms := s.G1().Scalar().Pick(random.New()); P1 := s.G1().Point().Mul(ms, nil); P2 := s.G2().Point().Mul(ms, nil)
    id := []byte("identity")
    q2 := s.G2().Point().(kyber.HashablePoint).Hash(id); d2 := s.G2().Point().Mul(ms, q2)  // private for CCAonG1
    q1 := s.G1().Point().(kyber.HashablePoint).Hash(id); d1 := s.G1().Point().Mul(ms, q1)  // private for CCAonG2
    for _, l := range []int{0,1,16,31,32,33,64} {
      msg := make([]byte, l); rng.Read(msg)
      c, err := ibe.EncryptCCAonG1(s, P1, id, msg)
      if l > 32 { if err == nil { issues["ccaG1 long accepted"]++ }; } else if err != nil { issues["ccaG1 enc err"]++ } else {
        pt, err := ibe.DecryptCCAonG1(s, d2, c); if err != nil || !bytes.Equal(pt,msg) { issues[fmt.Sprintf("ccaG1 roundtrip l=%d err=%v", l, err)]++ }
        for k := 0; k < 30 && l > 0; k++ { c2 := &ibe.Ciphertext{U: c.U.Clone(), V: append([]byte{}, c.V...), W: append([]byte{}, c.W...)}; if k%2==0 { c2.V[rng.Intn(l)] ^= 1<<uint(rng.Intn(8)) } else { c2.W[rng.Intn(l)] ^= 1<<uint(rng.Intn(8)) }
          if _, err := ibe.DecryptCCAonG1(s, d2, c2); err == nil { issues["ccaG1 flip accepted"]++ } }
        wrong := s.G2().Point().Mul(ms, s.G2().Point().(kyber.HashablePoint).Hash([]byte("other")))
        if l > 0 { if _, err := ibe.DecryptCCAonG1(s, wrong, c); err == nil { issues["ccaG1 wrong id accepted"]++ } }
      }
      c, err = ibe.EncryptCCAonG2(s, P2, id, msg)
      if l <= 32 { if err != nil { issues["ccaG2 enc err"]++ } else { pt, err := ibe.DecryptCCAonG2(s, d1, c); if err != nil || !bytes.Equal(pt,msg) { issues["ccaG2 roundtrip"]++ } } }
    }}()
    fmt.Println("ibe", name, issues)
  }
  { // anon
    ed := edwards25519.NewBlakeSHA256Ed25519(); issues := map[string]int{}; n := 0
    for size := 1; size <= 4; size++ { for mine := 0; mine < size; mine++ {
      var set anon.Set; var xs []kyber.Scalar
      for i:=0;i<size;i++{ x := ed.Scalar().Pick(random.New()); xs = append(xs,x); set = append(set, ed.Point().Mul(x,nil)) }
      for _, l := range []int{0,1,16,33,200} {
        msg := make([]byte, l); rng.Read(msg)
        ct, _ := anon.Encrypt(ed, msg, set)
        pt, err := anon.Decrypt(ed, ct, set, mine, xs[mine]); if err != nil || !bytes.Equal(pt,msg) { issues["roundtrip"]++ }
        for k := 0; k < 60; k++ { m := append([]byte{}, ct...); bit := rng.Intn(len(m)*8); m[bit/8] ^= 1<<(bit%8); n++
          func(){ defer func(){ if r := recover(); r != nil { issues[fmt.Sprintf("PANIC %v", r)]++ } }(); if p2, err := anon.Decrypt(ed, m, set, mine, xs[mine]); err == nil { issues[fmt.Sprintf("flip accepted region=%s same=%v", region(bit/8, size, len(ct)), bytes.Equal(p2,msg))]++ } }() }
      }
    }}
    fmt.Println("anon flips", n, issues)
  }
}
func region(pos, size, total int) string { if pos < 32 { return "eph" }; if pos < 32+32*size { return "hdr" }; if pos < total-16 { return "body" }; return "tag" }
