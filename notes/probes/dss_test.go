package exp
import (
 "testing"
 "fmt"
 "bytes"
 "crypto/ed25519"
 "math/rand"
 "go.dedis.ch/kyber/v4"
 "go.dedis.ch/kyber/v4/group/edwards25519"
 "go.dedis.ch/kyber/v4/share"
 dkg "go.dedis.ch/kyber/v4/share/dkg/pedersen"
 "go.dedis.ch/kyber/v4/sign/dss"
 "go.dedis.ch/kyber/v4/sign/eddsa"
 "go.dedis.ch/kyber/v4/sign/schnorr"
 "go.dedis.ch/kyber/v4/util/random"
)
func TestDSS(t *testing.T){
  rng := rand.New(rand.NewSource(21))
  suite := edwards25519.NewBlakeSHA256Ed25519()
  auth := schnorr.NewScheme(suite)
  n, th := 5, 3
  var privs []kyber.Scalar; var nodes []dkg.Node; var pubs []kyber.Point
  for i:=0;i<n;i++{ x := suite.Scalar().Pick(random.New()); privs = append(privs,x); P := suite.Point().Mul(x,nil); pubs = append(pubs,P); nodes = append(nodes, dkg.Node{Index: uint32(i), Public: P}) }
  gen := func() map[int]*dkg.Result { nonce := dkg.GetNonce(); var cfgs []*dkg.Config; for i := range nodes { cfgs = append(cfgs, &dkg.Config{Suite: suite, Longterm: privs[i], NewNodes: nodes, Threshold: uint32(th), Nonce: nonce, Auth: auth}) }; return runConfigs(cfgs, nil) }
  long, rnd, rnd2 := gen(), gen(), gen()
  msg := []byte("hello dss")
  issues := map[string]int{}
  mk := func(r map[int]*dkg.Result, m []byte) []*dss.DSS { var ds []*dss.DSS; for i:=0;i<n;i++{ d, err := dss.NewDSS(suite, privs[i], pubs, long[i].Key, r[i].Key, m, uint32(th)); if err != nil { panic(err) }; ds = append(ds, d) }; return ds }
  ds := mk(rnd, msg)
  var ps []*dss.PartialSig
  for i:=0;i<n;i++{ p, err := ds[i].PartialSig(); if err != nil { panic(err) }; ps = append(ps, p) }
  other := mk(rnd2, msg); otherMsg := mk(rnd, []byte("other"))
  var sigs [][]byte
  for c := 0; c < n; c++ {           // every combiner
    comb := mk(rnd, msg)[c]
    comb.PartialSig()
    perm := rng.Perm(n)
    // inject bad ones first
    op, _ := other[(c+1)%n].PartialSig(); if comb.ProcessPartialSig(op) == nil { issues["cross-session accepted"]++ }
    om, _ := otherMsg[(c+1)%n].PartialSig(); if comb.ProcessPartialSig(om) == nil { issues["cross-message accepted"]++ }
    bad := *ps[(c+1)%n]; bp := *bad.Partial; bp.V = suite.Scalar().Add(bp.V, suite.Scalar().One()); bad.Partial = &bp; if comb.ProcessPartialSig(&bad) == nil { issues["tampered value accepted"]++ }
    bad2 := *ps[(c+1)%n]; bp2 := *bad2.Partial; bp2.I = uint32(n+3); bad2.Partial = &bp2; if comb.ProcessPartialSig(&bad2) == nil { issues["out of range idx accepted"]++ }
    if _, err := comb.Signature(); err == nil && th > 1 { issues["signature with 1 partial"]++ }
    cnt := 1
    for _, i := range perm { if i == c { continue }; if cnt >= th { break }; if err := comb.ProcessPartialSig(ps[i]); err != nil { issues["honest partial rejected: "+err.Error()]++ } else { cnt++ }; if comb.ProcessPartialSig(ps[i]) == nil { issues["duplicate accepted"]++ } }
    if !comb.EnoughPartialSig() { issues["not enough after t"]++; continue }
    sig, err := comb.Signature(); if err != nil { issues["signature err"]++; continue }
    sigs = append(sigs, sig)
    pk := long[0].Key.Public()
    if dss.Verify(pk, msg, sig) != nil || eddsa.Verify(pk, msg, sig) != nil || schnorr.Verify(suite, pk, msg, sig) != nil { issues["combined sig fails kyber verify"]++ }
    pkb, _ := pk.MarshalBinary(); if !ed25519.Verify(ed25519.PublicKey(pkb), msg, sig) { issues["combined sig fails crypto/ed25519"]++ }
  }
  for i := 1; i < len(sigs); i++ { if !bytes.Equal(sigs[i], sigs[0]) { issues["combiners disagree"]++ } }
  _ = share.PriShare{}
  fmt.Println("dss combiners", len(sigs), issues)
}
