package exp
import (
 "testing"
 "fmt"
 "math/rand"
 "go.dedis.ch/kyber/v4"
)
func TestDecodeFuzz(t *testing.T){
  rng := rand.New(rand.NewSource(1))
  for _, G := range groups() {
    g := G.g
    panics := map[string]int{}
    accepted, total := 0, 0
    var sizes = []int{g.PointLen(), g.ScalarLen()}
    valid := [][]byte{}
    func(){ defer func(){ recover() }()
      b,_ := G.base().MarshalBinary(); valid = append(valid, b)
      b2,_ := g.Point().Null().MarshalBinary(); valid = append(valid, b2)
      b3,_ := g.Point().Mul(g.Scalar().SetInt64(12345), G.base()).MarshalBinary(); valid = append(valid, b3)
    }()
    tryPoint := func(in []byte) {
      total++
      defer func(){ if r := recover(); r != nil { k := fmt.Sprintf("%v", r); if len(k) > 70 { k = k[:70] }; panics[fmt.Sprintf("point len=%d: %s", len(in), k)]++ } }()
      p := g.Point()
      if err := p.UnmarshalBinary(in); err != nil { return }
      accepted++
      // later ops
      _ = p.String(); p.Equal(p); b,_ := p.MarshalBinary()
      q := g.Point().Add(p, G.base()); q.Mul(g.Scalar().SetInt64(3), p); q.Neg(p); q.Sub(p,p); _ = p.Clone()
      p2 := g.Point(); if err := p2.UnmarshalBinary(b); err != nil { panics["re-decode failed: "+err.Error()]++ } else if !p2.Equal(p) { panics["re-decode not equal"]++ }
    }
    tryScalar := func(in []byte) {
      defer func(){ if r := recover(); r != nil { k := fmt.Sprintf("%v", r); if len(k) > 70 { k = k[:70] }; panics[fmt.Sprintf("scalar len=%d: %s", len(in), k)]++ } }()
      s := g.Scalar()
      if err := s.UnmarshalBinary(in); err != nil { return }
      _ = s.String(); s.MarshalBinary(); g.Scalar().Add(s,s); g.Scalar().Mul(s,s); g.Point().Mul(s, G.base())
    }
    for _, l := range []int{0,1,2,sizes[0]-1,sizes[0],sizes[0]+1,2*sizes[0], sizes[1]-1, sizes[1], sizes[1]+1, 2*sizes[0]+40} {
      if l < 0 { continue }
      for rep := 0; rep < 30; rep++ {
        b := make([]byte, l)
        switch rep % 4 { case 0: rng.Read(b); case 1: for i := range b { b[i]=0xff }; case 2: ; case 3: rng.Read(b); if l>0 { b[0] = []byte{0x00,0x04,0x80,0xc0,0xa0,0xe0}[rng.Intn(6)] } }
        tryPoint(b); tryScalar(b)
      }
    }
    for _, v := range valid { for i := 0; i < 200; i++ { m := append([]byte{}, v...); if len(m)>0 { bit := rng.Intn(len(m)*8); m[bit/8] ^= 1<<(bit%8) }; tryPoint(m) } }
    fmt.Printf("%s: total=%d accepted=%d issues=%v\n", G.name, total, accepted, panics)
  }
  var _ kyber.Point
}
