package exp
import (
 "testing"
 "fmt"
 "sync"
 "time"
 "go.dedis.ch/kyber/v4"
 "go.dedis.ch/kyber/v4/group/edwards25519"
 dkg "go.dedis.ch/kyber/v4/share/dkg/pedersen"
 "go.dedis.ch/kyber/v4/sign/schnorr"
 "go.dedis.ch/kyber/v4/util/random"
)
type pnet struct { mu sync.Mutex; qd []dkg.DealBundle; qr []dkg.ResponseBundle; qj []dkg.JustificationBundle; boards []*pboard }
type pboard struct { net *pnet; d chan dkg.DealBundle; r chan dkg.ResponseBundle; j chan dkg.JustificationBundle; ph chan dkg.Phase; done chan struct{}; res dkg.OptionResult; name string }
func (b *pboard) PushDeals(x *dkg.DealBundle) { b.net.mu.Lock(); b.net.qd = append(b.net.qd, *x); b.net.mu.Unlock() }
func (b *pboard) PushResponses(x *dkg.ResponseBundle) { b.net.mu.Lock(); b.net.qr = append(b.net.qr, *x); b.net.mu.Unlock() }
func (b *pboard) PushJustifications(x *dkg.JustificationBundle) { b.net.mu.Lock(); b.net.qj = append(b.net.qj, *x); b.net.mu.Unlock() }
func (b *pboard) IncomingDeal() <-chan dkg.DealBundle { return b.d }
func (b *pboard) IncomingResponse() <-chan dkg.ResponseBundle { return b.r }
func (b *pboard) IncomingJustification() <-chan dkg.JustificationBundle { return b.j }
func (b *pboard) NextPhase() chan dkg.Phase { return b.ph }
func (n *pnet) tick(p dkg.Phase) { for _, b := range n.boards { select { case b.ph <- p: case <-b.done: case <-time.After(5*time.Second): fmt.Println("tick timeout", b.name) } } }
func (n *pnet) barrier() { n.tick(dkg.InitPhase) }
func (n *pnet) flush() {
  n.mu.Lock(); qd, qr, qj := n.qd, n.qr, n.qj; n.qd, n.qr, n.qj = nil, nil, nil; n.mu.Unlock()
  for _, b := range n.boards {
    for _, x := range qd { c := x; c.Deals = append([]dkg.Deal{}, x.Deals...); select { case b.d <- c: case <-b.done: } }
    for _, x := range qr { c := x; c.Responses = append([]dkg.Response{}, x.Responses...); select { case b.r <- c: case <-b.done: } }
    for _, x := range qj { c := x; c.Justifications = append([]dkg.Justification{}, x.Justifications...); select { case b.j <- c: case <-b.done: } }
  }
}
func runProto(cfgs []*dkg.Config, names []string) []*pboard {
  net := &pnet{}
  for i, c := range cfgs {
    b := &pboard{net: net, d: make(chan dkg.DealBundle), r: make(chan dkg.ResponseBundle), j: make(chan dkg.JustificationBundle), ph: make(chan dkg.Phase), done: make(chan struct{}), name: names[i]}
    net.boards = append(net.boards, b)
    p, err := dkg.NewProtocol(c, b, b, false); if err != nil { panic(err) }
    go func(){ b.res = <-p.WaitEnd(); close(b.done) }()
  }
  for _, ph := range []dkg.Phase{dkg.DealPhase, dkg.ResponsePhase, dkg.JustifPhase, dkg.FinishPhase} { net.tick(ph); net.barrier(); net.flush(); net.barrier() }
  for _, b := range net.boards { select { case <-b.done: case <-time.After(5*time.Second): fmt.Println("node never finished:", b.name) } }
  return net.boards
}
func TestProto(t *testing.T){
  suite := edwards25519.NewBlakeSHA256Ed25519()
  auth := schnorr.NewScheme(suite)
  mk := func(n int) ([]kyber.Scalar, []dkg.Node) { var p []kyber.Scalar; var nodes []dkg.Node; for i:=0;i<n;i++{ x := suite.Scalar().Pick(random.New()); p = append(p,x); nodes = append(nodes, dkg.Node{Index: uint32(i), Public: suite.Point().Mul(x,nil)}) }; return p, nodes }
  for _, fast := range []bool{false, true} {
    oldPriv, oldNodes := mk(4)
    nonce := dkg.GetNonce()
    var cfgs []*dkg.Config; var names []string
    for i := range oldNodes { cfgs = append(cfgs, &dkg.Config{Suite: suite, Longterm: oldPriv[i], NewNodes: oldNodes, Threshold: 3, Nonce: nonce, Auth: auth, FastSync: fast}); names = append(names, fmt.Sprintf("n%d", i)) }
    bs := runProto(cfgs, names)
    for _, b := range bs { fmt.Printf("fresh fast=%v %s: err=%v hasResult=%v\n", fast, b.name, b.res.Error, b.res.Result != nil) }
    // resharing: nodes 0,1 stay, 2,3 leave, two new join
    p2, n2 := mk(2)
    newNodes := []dkg.Node{oldNodes[0], oldNodes[1], {Index: 2, Public: n2[0].Public}, {Index: 3, Public: n2[1].Public}}
    nonce2 := dkg.GetNonce()
    var cf []*dkg.Config; names = nil
    for i := range oldNodes { cf = append(cf, &dkg.Config{Suite: suite, Longterm: oldPriv[i], OldNodes: oldNodes, NewNodes: newNodes, Share: bs[i].res.Result.Key, Threshold: 3, OldThreshold: 3, Nonce: nonce2, Auth: auth, FastSync: fast}); if i < 2 { names = append(names, fmt.Sprintf("stay%d", i)) } else { names = append(names, fmt.Sprintf("leave%d", i)) } }
    for i := range p2 { cf = append(cf, &dkg.Config{Suite: suite, Longterm: p2[i], OldNodes: oldNodes, NewNodes: newNodes, PublicCoeffs: bs[0].res.Result.Key.Commits, Threshold: 3, OldThreshold: 3, Nonce: nonce2, Auth: auth, FastSync: fast}); names = append(names, fmt.Sprintf("new%d", i)) }
    bs2 := runProto(cf, names)
    for _, b := range bs2 { fmt.Printf("reshare fast=%v %s: err=%v hasResult=%v\n", fast, b.name, b.res.Error, b.res.Result != nil) }
  }
}
