package ct
import (
 "testing"
 "fmt"
 "math/big"
 "go.dedis.ch/kyber/v4/group/mod"
 "go.dedis.ch/kyber/v4/group/edwards25519"
 "go.dedis.ch/kyber/v4/compatible/compatiblemod"
)
func try(name string, f func()) {
  defer func(){ if r := recover(); r != nil { fmt.Printf("  [%s] PANIC: %v\n", name, r) } }()
  f()
}
func TestCT(t *testing.T){
  q, _ := new(big.Int).SetString("7237005577332262213973186563042994240857116359379907606001950938285454250989", 10)
  m := compatiblemod.FromBigInt(q)
  x := mod.NewInt64(5, m)
  try("mod.Int SetInt64(-1)", func(){ x.SetInt64(-1); fmt.Println("SetInt64(-1) =", x.String()) })
  try("mod.NewInt64(-1)", func(){ y := mod.NewInt64(-1, m); fmt.Println("NewInt64(-1) =", y.String()) })
  s := edwards25519.NewBlakeSHA256Ed25519()
  try("ed SetInt64(-1)", func(){ z := s.Scalar().SetInt64(-1); fmt.Println("ed SetInt64(-1)=", z.String()) })
  try("Neg(0)", func(){ z := mod.NewInt64(0, m); z.Neg(z); fmt.Println("Neg(0)=", z.String(), "equal zero:", z.Equal(mod.NewInt64(0,m))) })
  try("Inv", func(){ z := mod.NewInt64(7, m); w := mod.NewInt64(0,m); w.Inv(z); w.Mul(w,z); fmt.Println("7*inv7=", w.String()) })
  try("SetBytes long", func(){ z := mod.NewInt64(0, m); b := make([]byte, 96); for i := range b { b[i]=0xff }; z.SetBytes(b); fmt.Println("setbytes96 =", z.String()) })
  try("SetBytes empty", func(){ z := mod.NewInt64(0, m); z.SetBytes(nil); fmt.Println("setbytes0 =", z.String()) })
}
