package exp
import (
 "testing"
 "bytes"
 "fmt"
 "math/big"
 "go.dedis.ch/kyber/v4"
 "go.dedis.ch/kyber/v4/group/p256"
 "go.dedis.ch/kyber/v4/group/edwards25519vartime"
 "go.dedis.ch/kyber/v4/pairing/bls12381/kilic"
 "go.dedis.ch/kyber/v4/pairing/bls12381/gnark"
 "go.dedis.ch/kyber/v4/pairing/bn256"
 "go.dedis.ch/kyber/v4/sign/tbls"
 "go.dedis.ch/kyber/v4/sign/bdn"
 "go.dedis.ch/kyber/v4/share"
 "go.dedis.ch/kyber/v4/encrypt/ibe"
 "go.dedis.ch/kyber/v4/util/random"
)
func try(name string, f func()) (panicked bool) {
  defer func(){ if r := recover(); r != nil { fmt.Printf("  [%s] PANIC: %v\n", name, r); panicked = true } }()
  f(); return false
}
func TestCand(t *testing.T){
  // 1. p256 off-curve
  s := p256.NewBlakeSHA256P256()
  buf := make([]byte, 65); buf[0]=4; buf[32]=5; buf[64]=7
  P := s.Point()
  err := P.UnmarshalBinary(buf)
  fmt.Println("1. p256 off-curve (5,7) decode err =", err)
  try("p256 mul offcurve", func(){ s.Point().Mul(s.Scalar().SetInt64(3), P) })
  // 2. vartime empty decode
  v := edwards25519vartime.NewBlakeSHA256Ed25519(false)
  try("vartime decode empty", func(){ e := v.Point().UnmarshalBinary([]byte{}); fmt.Println("2. vartime empty decode err=", e) })
  // 3. residue clone aliasing
  q := p256.NewBlakeSHA256QR512()
  A := q.Point().Pick(random.New())
  ab,_ := A.MarshalBinary()
  C := A.Clone()
  C.Null()
  ab2,_ := A.MarshalBinary()
  fmt.Println("3. residue: A unchanged after Clone().Null():", bytes.Equal(ab,ab2))
  A = q.Point().Pick(random.New()); ab,_ = A.MarshalBinary()
  D := q.Point().Set(A); D.Base(); ab2,_ = A.MarshalBinary()
  fmt.Println("3b. residue: A unchanged after Set(A).Base():", bytes.Equal(ab,ab2))
  // 4. kilic Null/Base
  ks := kilic.NewBLS12381Suite()
  kp := ks.G1().Point().Pick(random.New())
  ret := kp.Null()
  fmt.Println("4. kilic G1: receiver equals returned after Null():", kp.Equal(ret))
  kp.Base()
  fmt.Println("4b. kilic G1: receiver is base after Base():", kp.Equal(ks.G1().Point().Base()))
  // gt sub
  g1 := ks.G1().Point().Base(); g2 := ks.G2().Point().Base()
  e := ks.Pair(g1,g2)
  r := ks.GT().Point().Null()
  ret = r.Sub(e, e)
  fmt.Println("4c. kilic GT.Sub receiver equals returned:", r.Equal(ret), "returned is null:", ret.Equal(ks.GT().Point().Null()))
  rr := ks.GT().Point().Set(e)
  rr.Sub(e, ks.GT().Point().Null())
  _ = rr
  // 5. gnark add aliasing
  gs := gnark.NewSuite()
  a := gs.G1().Point().Pick(random.New()); p := gs.G1().Point().Pick(random.New())
  want := gs.G1().Point().Add(a, p)
  p.Add(a, p)
  fmt.Println("5. gnark P.Add(A,P) == A+P:", p.Equal(want))
  // 6. tbls duplicates
  bs := bn256.NewSuite()
  sch := tbls.NewThresholdSchemeOnG1(bs)
  n, th := 5, 3
  secret := bs.G1().Scalar().Pick(random.New())
  pri := share.NewPriPoly(bs.G2(), uint32(th), secret, random.New())
  pub := pri.Commit(bs.G2().Point().Base())
  msg := []byte("hi")
  var sigs [][]byte
  for _, x := range pri.Shares(uint32(n)) { sg, _ := sch.Sign(x, msg); sigs = append(sigs, sg) }
  in := [][]byte{sigs[0], sigs[0], sigs[1], sigs[2]}
  _, err = sch.Recover(pub, msg, in, uint32(th), uint32(n))
  fmt.Println("6. tbls recover with [s0,s0,s1,s2] t=3 err =", err)
  // 7. bdn NewMask with myKey
  bsch := bdn.NewSchemeOnG1(bs)
  sk1, pk1 := bsch.NewKeyPair(random.New()); _, pk2 := bsch.NewKeyPair(random.New())
  m, err := bdn.NewMask(bs.G2(), []kyber.Point{pk1,pk2}, pk1)
  fmt.Println("7. bdn NewMask(myKey) err=", err)
  sg,_ := bsch.Sign(sk1, msg)
  try("bdn aggregate with myKey mask", func(){ _, e := bsch.AggregateSignatures([][]byte{sg}, m); fmt.Println("   agg err=", e) })
  try("bdn aggpub with myKey mask", func(){ _, e := bsch.AggregatePublicKeys(m); fmt.Println("   aggpub err=", e) })
  // 8. IBE CPA plaintext in clear
  ksuite := kilic.NewBLS12381Suite()
  Pb := ksuite.G1().Point().Base()
  ms := ksuite.G1().Scalar().Pick(random.New())
  Ppub := ksuite.G1().Point().Mul(ms, Pb)
  msg2 := bytes.Repeat([]byte("A"), 80)
  c, err := ibe.EncryptCPAonG1(ksuite, Pb, Ppub, []byte("id"), msg2)
  fmt.Println("8. ibe cpa err=", err, " ciphertext tail == plaintext tail:", err == nil && bytes.Equal(c.C[32:], msg2[32:]))
  _ = big.NewInt
}
