package exp
import (
 "testing"
 "fmt"
 "math/rand"
 "go.dedis.ch/kyber/v4"
 "go.dedis.ch/kyber/v4/group/edwards25519"
 "go.dedis.ch/kyber/v4/group/p256"
 "go.dedis.ch/kyber/v4/share/pvss"
 "go.dedis.ch/kyber/v4/proof/dleq"
 "go.dedis.ch/kyber/v4/util/random"
)
func TestPVSS(t *testing.T){
  rng := rand.New(rand.NewSource(12))
  for name, suite := range map[string]pvss.Suite{"ed": edwards25519.NewBlakeSHA256Ed25519(), "p256": p256.NewBlakeSHA256P256()} {
    issues := map[string]int{}; evals := 0
    func(){ defer func(){ if r := recover(); r != nil { issues[fmt.Sprintf("PANIC %v", r)]++ } }()
    for _, n := range []int{2,3,5,8} { for th := 1; th <= n; th++ {
      G := suite.Point().Base(); H := suite.Point().Pick(random.New())
      var xs []kyber.Scalar; var X []kyber.Point
      for i:=0;i<n;i++{ x := suite.Scalar().Pick(random.New()); xs = append(xs,x); X = append(X, suite.Point().Mul(x,nil)) }
      secret := suite.Scalar().Pick(random.New())
      enc, pub, err := pvss.EncShares(suite, H, X, secret, uint32(th)); if err != nil { issues["encshares err"]++; continue }
      sH := make([]kyber.Point, n); for i := range sH { sH[i] = pub.Eval(enc[i].S.I).V }
      K, E, err := pvss.VerifyEncShareBatch(suite, H, X, sH, pub, enc)
      if err != nil || len(K) != n || len(E) != n { issues["honest enc shares not all verified"]++ }
      var dec []*pvss.PubVerShare
      for i:=0;i<n;i++{ d, err := pvss.DecShare(suite, H, X[i], sH[i], xs[i], enc[i].P.C, enc[i]); if err != nil { issues["decshare err"]++; continue }; dec = append(dec, d)
        if err := pvss.VerifyDecShare(suite, G, X[i], enc[i], d); err != nil { issues["verifydec honest"]++ } }
      if len(dec) != n { continue }
      // any t subset, permuted
      for rep := 0; rep < 6; rep++ { perm := rng.Perm(n)[:th+rng.Intn(n-th+1)]
        var X2 []kyber.Point; var e2, d2 []*pvss.PubVerShare
        for _, i := range perm { X2 = append(X2, X[i]); e2 = append(e2, enc[i]); d2 = append(d2, dec[i]) }
        evals++
        rec, err := pvss.RecoverSecret(suite, G, X2, e2, d2, uint32(th), uint32(n))
        if err != nil || !rec.Equal(suite.Point().Mul(secret, nil)) { issues[fmt.Sprintf("recover n=%d t=%d k=%d err=%v", n, th, len(perm), err)]++ }
      }
      if th > 1 { perm := rng.Perm(n)[:th-1]; var X2 []kyber.Point; var e2, d2 []*pvss.PubVerShare; for _, i := range perm { X2 = append(X2, X[i]); e2 = append(e2, enc[i]); d2 = append(d2, dec[i]) }
        if _, err := pvss.RecoverSecret(suite, G, X2, e2, d2, uint32(th), uint32(n)); err == nil { issues["recover <t accepted"]++ } }
      // swap two enc shares
      if n >= 2 { e3 := append([]*pvss.PubVerShare{}, enc...); e3[0], e3[1] = e3[1], e3[0]
        K, _, _ := pvss.VerifyEncShareBatch(suite, H, X, sH, pub, e3); if len(K) != 0 && th >= 1 { // global challenge changes => all fail
          issues[fmt.Sprintf("swap: %d still verify", len(K))]++ } }
      // mutate one dec share
      dm := *dec[0]; dm.S.V = suite.Point().Add(dm.S.V, G)
      if err := pvss.VerifyDecShare(suite, G, X[0], enc[0], &dm); err == nil { issues["mutated dec share accepted"]++ }
      dm = *dec[0]; dm.P.R = suite.Scalar().Add(dm.P.R, suite.Scalar().One())
      if err := pvss.VerifyDecShare(suite, G, X[0], enc[0], &dm); err == nil { issues["mutated dec proof accepted"]++ }
    }}
    x := suite.Scalar().Pick(random.New()); Gp := suite.Point().Pick(random.New()); Hp := suite.Point().Pick(random.New())
    p, xG, xH, _ := dleq.NewDLEQProof(suite, Gp, Hp, x)
    if p.Verify(suite, Gp, Hp, xG, xH) != nil { issues["dleq honest"]++ }
    if p.Verify(suite, Gp, Hp, xG, suite.Point().Add(xH, Gp)) == nil { issues["dleq wrong xH accepted"]++ }
    }()
    fmt.Println(name, "evals", evals, issues)
  }
}
