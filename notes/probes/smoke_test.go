package exp
import (
 "testing"
 "fmt"
 "math/big"
 "time"
 "go.dedis.ch/kyber/v4"
 "go.dedis.ch/kyber/v4/group/edwards25519"
 "go.dedis.ch/kyber/v4/group/edwards25519vartime"
 "go.dedis.ch/kyber/v4/group/p256"
 "go.dedis.ch/kyber/v4/pairing"
 "go.dedis.ch/kyber/v4/pairing/bn256"
 "go.dedis.ch/kyber/v4/pairing/bn254"
 "go.dedis.ch/kyber/v4/pairing/bls12381/kilic"
 "go.dedis.ch/kyber/v4/pairing/bls12381/circl"
 "go.dedis.ch/kyber/v4/pairing/bls12381/gnark"
)
type G struct { name string; g kyber.Group; base func() kyber.Point }
func groups() []G {
  var gs []G
  add := func(n string, g kyber.Group){ gs = append(gs, G{n,g,func() kyber.Point { return g.Point().Base() }}) }
  add("ed25519", edwards25519.NewBlakeSHA256Ed25519())
  add("edvartime", edwards25519vartime.NewBlakeSHA256Ed25519(false))
  add("p256", p256.NewBlakeSHA256P256())
  add("qr512", p256.NewBlakeSHA256QR512())
  for n, s := range map[string]pairing.Suite{"bn256":bn256.NewSuite(),"bn254":bn254.NewSuite(),"kilic":kilic.NewBLS12381Suite(),"circl":circl.NewSuite(),"gnark":gnark.NewSuite()} {
    add(n+".G1", s.G1()); add(n+".G2", s.G2())
    s := s
    gt := s.GT()
    gs = append(gs, G{n+".GT", gt, func() kyber.Point { return s.Pair(s.G1().Point().Base(), s.G2().Point().Base()) }})
  }
  return gs
}
func safe(name string, f func() bool) {
  defer func(){ if r := recover(); r != nil { fmt.Printf("  %s: PANIC %v\n", name, r) } }()
  if !f() { fmt.Printf("  %s: FAIL\n", name) }
}
func TestSmoke(t *testing.T){
  for _, G := range groups() {
    g := G.g
    t0 := time.Now()
    q := g.Scalar().GroupOrder().ToBigInt()
    sc := func(x *big.Int) kyber.Scalar {
      b := new(big.Int).Mod(x, q).Bytes()
      s := g.Scalar()
      if s.ByteOrder() == kyber.LittleEndian { for i,j := 0,len(b)-1; i<j; i,j = i+1,j-1 { b[i],b[j]=b[j],b[i] } }
      return s.SetBytes(b)
    }
    B := G.base()
    null := g.Point().Null()
    var ks []*big.Int
    for _, v := range []int64{0,1,2,3,4,5,7,8,15,16,17,255,256,257} { ks = append(ks, big.NewInt(v)) }
    for _, k := range []uint{21,32,63,64,65,127,128,129,200,250,252} { p := new(big.Int).Lsh(big.NewInt(1),k); ks = append(ks, p, new(big.Int).Sub(p,big.NewInt(1)), new(big.Int).Add(p,big.NewInt(1))) }
    ks = append(ks, new(big.Int).Sub(q,big.NewInt(1)), new(big.Int).Sub(q,big.NewInt(2)), new(big.Int).Rsh(q,1), new(big.Int).Add(new(big.Int).Rsh(q,1),big.NewInt(1)))
    fails := 0
    for _, k := range ks {
      if k.Cmp(q) >= 0 { continue }
      s := sc(k)
      // reference by double-and-add via API Add only
      acc := g.Point().Null()
      for i := k.BitLen()-1; i>=0; i-- { acc = g.Point().Add(acc, acc); if k.Bit(i)==1 { acc = g.Point().Add(acc, B) } }
      var viaNil kyber.Point
      func(){ defer func(){ recover() }(); viaNil = g.Point().Mul(s, nil) }()
      viaB := g.Point().Mul(s, B)
      if !viaB.Equal(acc) { fails++; fmt.Printf("  %s: Mul(%v,B) != add-chain\n", G.name, k) }
      if viaNil != nil && !viaNil.Equal(acc) { fails++; fmt.Printf("  %s: Mul(%v,nil) != add-chain\n", G.name, k) }
      // a*O
      if !g.Point().Mul(s, null).Equal(null) { fails++; fmt.Printf("  %s: %v*O != O\n", G.name, k) }
    }
    safe(G.name+" P+(-P)", func() bool { return g.Point().Add(B, g.Point().Neg(B)).Equal(null) })
    safe(G.name+" P-P", func() bool { return g.Point().Sub(B, B).Equal(null) })
    safe(G.name+" P+O", func() bool { return g.Point().Add(B, null).Equal(B) && g.Point().Add(null, B).Equal(B) })
    safe(G.name+" O+O", func() bool { return g.Point().Add(null, null).Equal(null) })
    safe(G.name+" -O", func() bool { return g.Point().Neg(null).Equal(null) })
    safe(G.name+" O-P", func() bool { return g.Point().Sub(null, B).Equal(g.Point().Neg(B)) })
    safe(G.name+" enc(O) roundtrip", func() bool { b,_ := null.MarshalBinary(); p := g.Point(); if err := p.UnmarshalBinary(b); err != nil { fmt.Println("   err", err); return false }; return p.Equal(null) })
    fmt.Printf("%s: %d scalars, fails=%d, %v\n", G.name, len(ks), fails, time.Since(t0))
  }
}
