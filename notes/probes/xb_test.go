package exp
import (
 "testing"
 "fmt"
 "bytes"
 "go.dedis.ch/kyber/v4"
 "go.dedis.ch/kyber/v4/pairing"
 "go.dedis.ch/kyber/v4/pairing/bls12381/kilic"
 "go.dedis.ch/kyber/v4/pairing/bls12381/circl"
 "go.dedis.ch/kyber/v4/pairing/bls12381/gnark"
 "go.dedis.ch/kyber/v4/sign/bls"
)
func TestXBackend(t *testing.T){
  names := []string{"kilic","circl","gnark"}
  ss := []pairing.Suite{kilic.NewBLS12381Suite(), circl.NewSuite(), gnark.NewSuite()}
  for _, m := range [][]byte{{}, []byte("a"), []byte("hello world"), bytes.Repeat([]byte{0xff}, 300)} {
    var h1, h2, s1, s2 [][]byte
    for i, s := range ss {
      b1,_ := s.G1().Point().(kyber.HashablePoint).Hash(m).MarshalBinary(); h1 = append(h1, b1)
      b2,_ := s.G2().Point().(kyber.HashablePoint).Hash(m).MarshalBinary(); h2 = append(h2, b2)
      sk := s.G1().Scalar().SetBytes([]byte{1,2,3,4,5,6,7,8,9})
      sg1,_ := bls.NewSchemeOnG1(s).Sign(sk, m); s1 = append(s1, sg1)
      sg2,_ := bls.NewSchemeOnG2(s).Sign(sk, m); s2 = append(s2, sg2)
      _ = names[i]
    }
    eq := func(x [][]byte) bool { return bytes.Equal(x[0],x[1]) && bytes.Equal(x[1],x[2]) }
    fmt.Printf("msg len %d: hashG1 agree=%v hashG2 agree=%v sigG1 agree=%v sigG2 agree=%v\n", len(m), eq(h1), eq(h2), eq(s1), eq(s2))
  }
}
