package exp
import (
 "testing"
 "fmt"
 "math/rand"
 "go.dedis.ch/kyber/v4"
 "go.dedis.ch/kyber/v4/group/edwards25519"
 "go.dedis.ch/kyber/v4/proof"
 "go.dedis.ch/kyber/v4/util/random"
)
func TestPred(t *testing.T){
  rng := rand.New(rand.NewSource(11))
  suite := edwards25519.NewBlakeSHA256Ed25519()
  rnd := random.New()
  bad, total, soundBad := 0, 0, 0
  for iter := 0; iter < 300; iter++ {
    nb := 1 + rng.Intn(4)
    nsec := 1 + rng.Intn(4); nbase := 1 + rng.Intn(3)
    secrets := map[string]kyber.Scalar{}; points := map[string]kyber.Point{}
    for i := 0; i < nsec; i++ { secrets[fmt.Sprintf("x%d", i)] = suite.Scalar().Pick(rnd) }
    for i := 0; i < nbase; i++ { points[fmt.Sprintf("B%d", i)] = suite.Point().Pick(rnd) }
    choice := rng.Intn(nb)
    pn := 0
    var branches []proof.Predicate
    desc := ""
    for b := 0; b < nb; b++ {
      nt := 1 + rng.Intn(4)
      var reps []proof.Predicate
      for r := 0; r < nt; r++ {
        k := 1 + rng.Intn(3)
        args := []string{}
        P := suite.Point().Null()
        for j := 0; j < k; j++ {
          sn := fmt.Sprintf("x%d", rng.Intn(nsec)); bn := fmt.Sprintf("B%d", rng.Intn(nbase))
          args = append(args, sn, bn)
          P.Add(P, suite.Point().Mul(secrets[sn], points[bn]))
        }
        name := fmt.Sprintf("P%d", pn); pn++
        truth := b == choice || rng.Intn(2) == 0
        if !truth { P = suite.Point().Pick(rnd) }
        points[name] = P
        reps = append(reps, proof.Rep(name, args...))
      }
      var br proof.Predicate
      if nt == 1 && rng.Intn(2) == 0 { br = reps[0] } else { br = proof.And(reps...) }
      branches = append(branches, br)
    }
    var pred proof.Predicate
    ch := map[proof.Predicate]int{}
    if nb == 1 && rng.Intn(2) == 0 { pred = branches[0] } else { pred = proof.Or(branches...); ch[pred] = choice }
    desc = pred.String()
    total++
    var prf []byte; var err error
    func(){ defer func(){ if r := recover(); r != nil { err = fmt.Errorf("panic %v", r) } }()
      prf, err = proof.HashProve(suite, "p", pred.Prover(suite, secrets, points, ch)) }()
    if err != nil { bad++; fmt.Println("prove err:", err, desc, "choice", choice); continue }
    func(){ defer func(){ if r := recover(); r != nil { err = fmt.Errorf("panic %v", r) } }()
      err = proof.HashVerify(suite, "p", pred.Verifier(suite, points), prf) }()
    if err != nil { bad++; fmt.Println("verify err:", err, desc, "choice", choice) }
    // soundness: falsify one secret used in chosen branch -> must fail
    s2 := map[string]kyber.Scalar{}; for k, v := range secrets { s2[k] = v.Clone() }
    // falsify all secrets (so chosen branch certainly false)
    for k := range s2 { s2[k] = suite.Scalar().Pick(rnd) }
    prf2, err2 := proof.HashProve(suite, "p", pred.Prover(suite, s2, points, ch))
    if err2 == nil { if proof.HashVerify(suite, "p", pred.Verifier(suite, points), prf2) == nil { soundBad++; fmt.Println("UNSOUND accept:", desc) } }
    if proof.HashVerify(suite, "q", pred.Verifier(suite, points), prf) == nil { soundBad++; fmt.Println("accepts other protocol name") }
  }
  fmt.Println("total", total, "completeness failures", bad, "soundness failures", soundBad)
}
