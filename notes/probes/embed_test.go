package exp
import (
 "testing"
 "fmt"
 "bytes"
 "math/big"
 "math/rand"
 "go.dedis.ch/kyber/v4"
 "go.dedis.ch/kyber/v4/group/edwards25519vartime"
 "go.dedis.ch/kyber/v4/xof/blake2xb"
)
func TestEmbed(t *testing.T){
  rng := rand.New(rand.NewSource(5))
  gs := groups()
  gs = append(gs, G{"edvartime-full", edwards25519vartime.NewBlakeSHA256Ed25519(true), nil})
  ext := new(edwards25519vartime.ExtendedCurve).InitCurve(edwards25519vartime.ParamEd25519(), false)
  gs = append(gs, G{"edvartime-ext", ext, nil})
  for _, G := range gs {
    g := G.g
    var el int
    sup := func() (ok bool) { defer func(){ if recover() != nil { ok = false } }(); el = g.Point().EmbedLen(); return true }()
    q := g.Scalar().GroupOrder().ToBigInt()
    qm1 := func() kyber.Scalar { b := new(big.Int).Sub(q, big.NewInt(1)).Bytes(); s := g.Scalar(); if s.ByteOrder()==kyber.LittleEndian { for i,j:=0,len(b)-1;i<j;i,j=i+1,j-1{b[i],b[j]=b[j],b[i]} }; return s.SetBytes(b) }()
    inGroup := func(p kyber.Point) bool { r := g.Point().Mul(qm1, p); r.Add(r, p); return r.Equal(g.Point().Null()) }
    issues := map[string]int{}
    // Pick
    pickOK := func() (ok bool) { defer func(){ if recover() != nil { ok = false } }(); g.Point().Pick(blake2xb.New([]byte("x"))); return true }()
    if pickOK {
      for i := 0; i < 40; i++ {
        seed := []byte{byte(i), 1}
        p1 := g.Point().Pick(blake2xb.New(seed)); p2 := g.Point().Pick(blake2xb.New(seed))
        if !p1.Equal(p2) { issues["pick nondeterministic"]++ }
        if !inGroup(p1) { issues["pick not in group"]++ }
      }
    }
    if sup {
      for dl := 0; dl <= el+8; dl++ {
        data := make([]byte, dl); rng.Read(data)
        func(){
          defer func(){ if r := recover(); r != nil { issues[fmt.Sprintf("panic: %v", r)]++ } }()
          p := g.Point().Embed(data, blake2xb.New([]byte{byte(dl)}))
          want := data; if len(want) > el { want = want[:el] }
          got, err := p.Data()
          if err != nil || !bytes.Equal(got, want) { issues[fmt.Sprintf("data mismatch dl=%d err=%v", dl, err)]++ }
          if !inGroup(p) { issues["embed not in group"]++ }
          b,_ := p.MarshalBinary(); p2 := g.Point(); if err := p2.UnmarshalBinary(b); err != nil { issues["decode embed fail"]++ } else { got2, err2 := p2.Data(); if err2 != nil || !bytes.Equal(got2, want) { issues["data after roundtrip mismatch"]++ } }
        }()
      }
    }
    fmt.Printf("%-16s embedSupported=%v embedLen=%d pick=%v issues=%v\n", G.name, sup, el, pickOK, issues)
  }
}
