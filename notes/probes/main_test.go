package exp
import (
 "testing"
 "bytes"
 "go.dedis.ch/kyber/v4"
 "go.dedis.ch/kyber/v4/xof/blake2xb"
 "go.dedis.ch/kyber/v4/xof/blake2xs"
 "go.dedis.ch/kyber/v4/xof/keccak"
)
func TestResetAfterReseed(t *testing.T){
  for name, f := range map[string]func([]byte) kyber.XOF{"b":blake2xb.New,"s":blake2xs.New,"k":keccak.New} {
   for _, sl := range []int{0,10,64,100} {
    seed := bytes.Repeat([]byte{7}, sl)
    x := f(seed); ref := f(seed)
    a := make([]byte, 50); b := make([]byte,50)
    x.Read(a); x.Reseed(); x.Write([]byte("hello")); x.Read(a)
    x.Reset(); x.Read(a); ref.Read(b)
    t.Logf("%s seedlen=%d resetAfterReseed==fresh: %v", name, sl, bytes.Equal(a,b))
   }
  }
}
