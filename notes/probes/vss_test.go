package exp
import (
 "testing"
 "fmt"
 "go.dedis.ch/kyber/v4"
 "go.dedis.ch/kyber/v4/group/edwards25519"
 "go.dedis.ch/kyber/v4/share"
 "go.dedis.ch/kyber/v4/sign/schnorr"
 vss "go.dedis.ch/kyber/v4/share/vss/pedersen"
)
func TestVSSJust(t *testing.T){
  suite := edwards25519.NewBlakeSHA256Ed25519()
  n, th := 4, 3
  var privs []kyber.Scalar; var pubs []kyber.Point
  for i:=0;i<n;i++{ x := suite.Scalar().Pick(suite.RandomStream()); privs = append(privs,x); pubs = append(pubs, suite.Point().Mul(x,nil)) }
  dl := suite.Scalar().Pick(suite.RandomStream()); dpub := suite.Point().Mul(dl,nil)
  secret := suite.Scalar().Pick(suite.RandomStream())
  dealer, err := vss.NewDealer(suite, dl, secret, pubs, uint32(th)); if err != nil { t.Fatal(err) }
  vers := make([]*vss.Verifier, n)
  for i:=0;i<n;i++{ vers[i], _ = vss.NewVerifier(suite, privs[i], dpub, pubs) }
  // verifiers 0,1 get honest deals via real path; 2,3 get corrupted shares (plaintext injection)
  var resps []*vss.Response
  for i:=0;i<n;i++{
    d, _ := dealer.PlaintextDeal(i)
    dd := *d
    if i >= 2 { dd.SecShare = &share.PriShare{I: d.SecShare.I, V: suite.Scalar().Add(d.SecShare.V, suite.Scalar().One())} }
    err := vers[i].VerifyDeal(&dd, true)
    r := &vss.Response{SessionID: dealer.SessionID(), Index: uint32(i), StatusApproved: err == nil}
    r.Signature, _ = schnorr.Sign(suite, privs[i], r.Hash(suite))
    resps = append(resps, r)
    fmt.Printf("verifier %d VerifyDeal err=%v\n", i, err)
  }
  for i:=0;i<n;i++{ for _, r := range resps { e := vers[i].ProcessResponse(r); if e != nil { fmt.Printf("  v%d resp%d err=%v\n", i, r.Index, e) } } }
  // dealer "justifies" complaints of 2 and 3 with the (valid) deal of verifier 0
  d0, _ := dealer.PlaintextDeal(0)
  for _, idx := range []uint32{2,3} {
    j := &vss.Justification{SessionID: dealer.SessionID(), Index: idx, Deal: d0}
    for i:=0;i<n;i++{ e := vers[i].ProcessJustification(j); if e != nil { fmt.Printf("  v%d just%d err=%v\n", i, idx, e) } }
  }
  for i:=0;i<n;i++{ fmt.Printf("verifier %d certified=%v\n", i, vers[i].DealCertified()) }
}
