package exp
import (
 "testing"
 "fmt"
 "bytes"
 "math/big"
 "math/rand"
 "go.dedis.ch/kyber/v4"
)
func toBig(s kyber.Scalar) *big.Int { b,_ := s.MarshalBinary(); if s.ByteOrder()==kyber.LittleEndian { b = rev(b) }; return new(big.Int).SetBytes(b) }
func TestScalars(t *testing.T){
  rng := rand.New(rand.NewSource(9))
  seen := map[string]bool{}
  for _, G := range groups() {
    g := G.g
    key := fmt.Sprintf("%T", g.Scalar()) + g.Scalar().GroupOrder().ToBigInt().String()
    if seen[key] { continue }; seen[key] = true
    q := g.Scalar().GroupOrder().ToBigInt()
    issues := map[string]int{}
    fromBig := func(x *big.Int) kyber.Scalar { b := leftpad(new(big.Int).Mod(x,q).Bytes(), g.ScalarLen()); s := g.Scalar(); if s.ByteOrder()==kyber.LittleEndian { b = rev(b) }; if err := s.UnmarshalBinary(b); err != nil { issues["unmarshal reduced failed: "+err.Error()]++ }; return s }
    edge := []*big.Int{big.NewInt(0), big.NewInt(1), big.NewInt(2), new(big.Int).Sub(q,big.NewInt(1)), new(big.Int).Sub(q,big.NewInt(2)), new(big.Int).Rsh(q,1)}
    for _, k := range []uint{8,21,42,63,64,65,126,128,129,189,192,231,248,250,252} { p := new(big.Int).Lsh(big.NewInt(1),k); if p.Cmp(q) < 0 { edge = append(edge, p, new(big.Int).Sub(p,big.NewInt(1)), new(big.Int).Add(p,big.NewInt(1))) } }
    for i := 0; i < 20; i++ { edge = append(edge, new(big.Int).Rand(rng, q)) }
    chk := func(what string, got kyber.Scalar, want *big.Int) {
      w := new(big.Int).Mod(want, q)
      b,_ := got.MarshalBinary()
      if len(b) != g.ScalarLen() { issues[what+": bad length"]++ }
      if toBig(got).Cmp(w) != 0 { issues[what]++ }
    }
    func(){
      defer func(){ if r := recover(); r != nil { issues[fmt.Sprintf("PANIC %v", r)]++ } }()
      for _, a := range edge { for _, b := range edge {
        A, B := fromBig(a), fromBig(b)
        chk("add", g.Scalar().Add(A,B), new(big.Int).Add(a,b))
        chk("sub", g.Scalar().Sub(A,B), new(big.Int).Sub(a,b))
        chk("mul", g.Scalar().Mul(A,B), new(big.Int).Mul(a,b))
        if b.Sign() != 0 { inv := new(big.Int).ModInverse(b,q); chk("div", g.Scalar().Div(A,B), new(big.Int).Mul(a,inv)) }
      }
        A := fromBig(a)
        chk("neg", g.Scalar().Neg(A), new(big.Int).Neg(a))
        if a.Sign() != 0 { chk("inv", g.Scalar().Inv(A), new(big.Int).ModInverse(a,q)) }
        if !g.Scalar().Set(A).Equal(A) { issues["set/equal"]++ }
      }
      for _, v := range []int64{0,1,-1,2,-2,1<<31,-(1<<31),1<<62,-(1<<62),9223372036854775807,-9223372036854775808, 12345, -98765} {
        func(){ defer func(){ if r := recover(); r != nil { issues[fmt.Sprintf("SetInt64(%d) PANIC %v", v, r)]++ } }(); chk("setint64", g.Scalar().SetInt64(v), big.NewInt(v)) }()
      }
      chk("zero", g.Scalar().Zero(), big.NewInt(0)); chk("one", g.Scalar().One(), big.NewInt(1))
      for l := 0; l <= 96; l++ { for rep := 0; rep < 3; rep++ {
        b := make([]byte, l); switch rep { case 0: rng.Read(b); case 1: for i := range b { b[i]=0xff }; case 2: if l>0 { b[0]=1 } }
        ref := b; if g.Scalar().ByteOrder()==kyber.LittleEndian { ref = rev(b) }
        func(){ defer func(){ if r := recover(); r != nil { issues[fmt.Sprintf("SetBytes len=%d PANIC %v", l, r)]++ } }(); chk(fmt.Sprintf("setbytes"), g.Scalar().SetBytes(append([]byte{}, b...)), new(big.Int).SetBytes(ref)) }()
      }}
    }()
    // encoding canonical
    x := fromBig(big.NewInt(5)); y := g.Scalar().Sub(g.Scalar().Add(x, fromBig(big.NewInt(77))), fromBig(big.NewInt(77)))
    xb,_ := x.MarshalBinary(); yb,_ := y.MarshalBinary(); if !bytes.Equal(xb,yb) || !x.Equal(y) { issues["equal residues differ in bytes/Equal"]++ }
    fmt.Printf("%-10s %T issues=%v\n", G.name, g.Scalar(), issues)
  }
}
