package exp
import (
 "testing"
 "fmt"
 "math/rand"
 "go.dedis.ch/kyber/v4"
 "go.dedis.ch/kyber/v4/share"
 "go.dedis.ch/kyber/v4/util/random"
)
func TestShamir(t *testing.T){
  rng := rand.New(rand.NewSource(2))
  for _, G := range groups()[:5] {
    g := G.g
    issues := map[string]int{}; evals := 0
    func(){ defer func(){ if r := recover(); r != nil { issues[fmt.Sprintf("PANIC %v", r)]++ } }()
    for n := 1; n <= 6; n++ { for th := 1; th <= n; th++ {
      secret := g.Scalar().Pick(random.New()); if rng.Intn(4)==0 { secret.Zero() }
      var H kyber.Point; if rng.Intn(2)==0 { H = g.Point().Pick(random.New()) }
      pp := share.NewPriPoly(g, uint32(th), secret, random.New())
      pub := pp.Commit(H)
      sh := pp.Shares(uint32(n)); psh := pub.Shares(uint32(n))
      base := H; if base == nil { base = g.Point().Base() }
      for i := range sh { if !g.Point().Mul(sh[i].V, base).Equal(psh[i].V) { issues["pub eval != pri eval*base"]++ }; if !pub.Check(sh[i]) { issues["check honest"]++ }
        bad := &share.PriShare{I: sh[i].I, V: g.Scalar().Add(sh[i].V, g.Scalar().One())}; if pub.Check(bad) { issues["check accepts bad"]++ } }
      for mask := 0; mask < 1<<n; mask++ {
        var idx []int; for i := 0; i < n; i++ { if mask>>i&1 == 1 { idx = append(idx, i) } }
        rng.Shuffle(len(idx), func(a,b int){ idx[a],idx[b]=idx[b],idx[a] })
        var s1 []*share.PriShare; var p1 []*share.PubShare
        for _, i := range idx { s1 = append(s1, sh[i]); p1 = append(p1, psh[i]); if rng.Intn(3)==0 { s1 = append(s1, nil); p1 = append(p1, nil) } }
        evals++
        rs, err := share.RecoverSecret(g, s1, uint32(th), uint32(n))
        if len(idx) < th { if err == nil { issues["recover with <t accepted"]++ } } else if err != nil || !rs.Equal(secret) { issues[fmt.Sprintf("RecoverSecret n=%d t=%d", n, th)]++ }
        rc, err := share.RecoverCommit(g, p1, uint32(th), uint32(n))
        if len(idx) < th { if err == nil { issues["recovercommit with <t accepted"]++ } } else if err != nil || !rc.Equal(g.Point().Mul(secret, base)) { issues["RecoverCommit"]++ }
        rp, err := share.RecoverPriPoly(g, s1, uint32(th), uint32(n))
        if len(idx) < th { if err == nil { issues["recoverpripoly <t accepted"]++ } } else if err != nil || !rp.Equal(pp) { issues[fmt.Sprintf("RecoverPriPoly n=%d t=%d k=%d err=%v", n, th, len(idx), err)]++ }
        rpp, err := share.RecoverPubPoly(g, p1, uint32(th), uint32(n))
        if len(idx) >= th { if err != nil { issues["RecoverPubPoly err"]++ } else { _, c1 := rpp.Info(); _, c2 := pub.Info(); ok := len(c1)==len(c2); for k := range c1 { if ok && !c1[k].Equal(c2[k]) { ok = false } }; if !ok { issues["RecoverPubPoly mismatch"]++ } } }
      }
    }}}()
    fmt.Printf("%s evals=%d issues=%v\n", G.name, evals, issues)
  }
}
