package exp
import (
 "testing"
 "fmt"
 "math/rand"
 "strings"
)
func TestDecodeFuzz3(t *testing.T){
  rng := rand.New(rand.NewSource(99))
  for _, G := range groups() {
    if !strings.Contains(G.name, ".") { continue }
    g := G.g
    panics := map[string]int{}
    accepted := 0
    sz := g.PointLen()
    tryPoint := func(in []byte) {
      defer func(){ if r := recover(); r != nil { k := fmt.Sprintf("%v", r); if len(k) > 60 { k = k[:60] }; panics[fmt.Sprintf("len=%d first=%02x: %s", len(in), first(in), k)]++ } }()
      p := g.Point()
      if err := p.UnmarshalBinary(in); err != nil { return }
      accepted++
      _ = p.String(); p.Equal(p); b,_ := p.MarshalBinary()
      q := g.Point().Add(p, G.base()); q.Mul(g.Scalar().SetInt64(3), p); q.Neg(p); q.Sub(p,p); _ = p.Clone()
      p2 := g.Point(); if err := p2.UnmarshalBinary(b); err != nil { panics["re-decode failed"]++ } else if !p2.Equal(p) { panics["re-decode not equal"]++ }
    }
    for _, l := range []int{0,1,sz/2-1,sz/2,sz/2+1,sz-1,sz,sz+1,2*sz-1,2*sz,2*sz+1,3*sz} {
      if l < 0 { continue }
      for _, fb := range []int{0x00,0x20,0x40,0x60,0x80,0xa0,0xc0,0xe0,0x04,0x1f,0xff} {
        for rep := 0; rep < 12; rep++ {
          b := make([]byte, l)
          if rep%3 == 0 { rng.Read(b) } else if rep%3 == 1 { for i := range b { b[i]=0xff } }
          if l > 0 { b[0] = byte(fb) | (b[0] & 0x1f & byte(rep)) }
          tryPoint(b)
        }
      }
    }
    fmt.Printf("%s: accepted=%d issues=%v\n", G.name, accepted, panics)
  }
}
func first(b []byte) byte { if len(b)==0 { return 0 }; return b[0] }
