package exp
import (
 "testing"
 "fmt"
 "math/rand"
 "go.dedis.ch/kyber/v4"
 "go.dedis.ch/kyber/v4/group/edwards25519"
 "go.dedis.ch/kyber/v4/group/p256"
 "go.dedis.ch/kyber/v4/pairing/bn256"
 "go.dedis.ch/kyber/v4/pairing/bls12381/kilic"
 "go.dedis.ch/kyber/v4/pairing/bls12381/circl"
 "go.dedis.ch/kyber/v4/pairing/bls12381/gnark"
 "go.dedis.ch/kyber/v4/sign/schnorr"
 "go.dedis.ch/kyber/v4/sign/eddsa"
 "go.dedis.ch/kyber/v4/sign/bls"
 "go.dedis.ch/kyber/v4/sign/tbls"
 "go.dedis.ch/kyber/v4/sign/cosi"
 "go.dedis.ch/kyber/v4/sign/anon"
 "go.dedis.ch/kyber/v4/share"
 "go.dedis.ch/kyber/v4/proof"
 "go.dedis.ch/kyber/v4/shuffle"
 "go.dedis.ch/kyber/v4/encrypt/ecies"
 vssp "go.dedis.ch/kyber/v4/share/vss/pedersen"
 vssr "go.dedis.ch/kyber/v4/share/vss/rabin"
 "go.dedis.ch/kyber/v4/util/random"
)
func mut(rng *rand.Rand, valid []byte, i int) []byte {
  switch i % 6 {
  case 0: b := make([]byte, rng.Intn(2*len(valid)+40)); rng.Read(b); return b
  case 1: return valid[:rng.Intn(len(valid)+1)]
  case 2: m := append([]byte{}, valid...); if len(m)>0 { bit := rng.Intn(len(m)*8); m[bit/8] ^= 1<<(bit%8) }; return m
  case 3: m := append([]byte{}, valid...); extra := make([]byte, rng.Intn(40)); rng.Read(extra); return append(m, extra...)
  case 4: m := append([]byte{}, valid...); for j := 0; j < 4 && len(m) > 0; j++ { m[rng.Intn(len(m))] = byte(rng.Intn(256)) }; return m
  default: m := make([]byte, len(valid)); for j := range m { m[j] = 0xff }; return m
  }
}
func TestParserFuzz(t *testing.T){
  rng := rand.New(rand.NewSource(7))
  ed := edwards25519.NewBlakeSHA256Ed25519()
  p2 := p256.NewBlakeSHA256P256()
  run := func(name string, valid []byte, n int, f func(in []byte)) {
    panics := map[string]int{}
    for i := 0; i < n; i++ {
      in := mut(rng, valid, i)
      func(){ defer func(){ if r := recover(); r != nil { k := fmt.Sprintf("%v", r); if len(k)>80 { k = k[:80] }; panics[k]++ } }(); f(in) }()
    }
    fmt.Printf("%-28s n=%d panics=%v\n", name, n, panics)
  }
  msg := []byte("message")
  for _, s := range []struct{ n string; g schnorr.Suite }{{"ed", ed}, {"p256", p2}} {
    x := s.g.Scalar().Pick(random.New()); X := s.g.Point().Mul(x,nil)
    sig, _ := schnorr.Sign(s.g, x, msg)
    run("schnorr.Verify/"+s.n, sig, 600, func(in []byte){ schnorr.Verify(s.g, X, msg, in) })
    pb,_ := X.MarshalBinary()
    run("schnorr.VerifyWithChecks pub/"+s.n, pb, 600, func(in []byte){ schnorr.VerifyWithChecks(s.g, in, msg, sig) })
  }
  e := eddsa.NewEdDSA(random.New()); esig,_ := e.Sign(msg); epb,_ := e.Public.MarshalBinary()
  run("eddsa.Verify sig", esig, 600, func(in []byte){ eddsa.Verify(e.Public, msg, in) })
  run("eddsa.VerifyWithChecks pub", epb, 600, func(in []byte){ eddsa.VerifyWithChecks(in, msg, esig) })
  eb,_ := e.MarshalBinary()
  run("eddsa.UnmarshalBinary", eb, 300, func(in []byte){ var z eddsa.EdDSA; z.UnmarshalBinary(in) })
  type ps struct{ n string; mk func() (interface{ Verify(kyber.Point, []byte, []byte) error; Sign(kyber.Scalar, []byte) ([]byte, error); NewKeyPair(c interface{XORKeyStream(dst, src []byte)}) (kyber.Scalar, kyber.Point) }) }
  bn := bn256.NewSuite(); ks := kilic.NewBLS12381Suite(); cs := circl.NewSuite(); gs := gnark.NewSuite()
  {
    sch := bls.NewSchemeOnG1(bn); sk, pk := sch.NewKeyPair(random.New()); sig,_ := sch.Sign(sk, msg)
    run("bls.Verify bn256/G1", sig, 300, func(in []byte){ sch.Verify(pk, msg, in) })
    ts := tbls.NewThresholdSchemeOnG1(bn); pri := share.NewPriPoly(bn.G2(), 2, nil, random.New()); pub := pri.Commit(bn.G2().Point().Base())
    psig,_ := ts.Sign(pri.Shares(3)[1], msg)
    run("tbls.VerifyPartial bn256", psig, 300, func(in []byte){ ts.VerifyPartial(pub, msg, in) })
    run("tbls.Recover bn256", psig, 300, func(in []byte){ ts.Recover(pub, msg, [][]byte{in, in}, 2, 3) })
    run("tbls.IndexOf bn256", psig, 100, func(in []byte){ ts.IndexOf(in) })
  }
  {
    sch := bls.NewSchemeOnG1(ks); sk, pk := sch.NewKeyPair(random.New()); sig,_ := sch.Sign(sk, msg)
    run("bls.Verify kilic/G1", sig, 300, func(in []byte){ sch.Verify(pk, msg, in) })
    sch2 := bls.NewSchemeOnG2(ks); sk2, pk2 := sch2.NewKeyPair(random.New()); sig2,_ := sch2.Sign(sk2, msg)
    run("bls.Verify kilic/G2", sig2, 300, func(in []byte){ sch2.Verify(pk2, msg, in) })
  }
  {
    sch := bls.NewSchemeOnG1(cs); sk, pk := sch.NewKeyPair(random.New()); sig,_ := sch.Sign(sk, msg)
    run("bls.Verify circl/G1", sig, 300, func(in []byte){ sch.Verify(pk, msg, in) })
    sch2 := bls.NewSchemeOnG2(cs); sk2, pk2 := sch2.NewKeyPair(random.New()); sig2,_ := sch2.Sign(sk2, msg)
    run("bls.Verify circl/G2", sig2, 300, func(in []byte){ sch2.Verify(pk2, msg, in) })
  }
  {
    sch := bls.NewSchemeOnG1(gs); sk, pk := sch.NewKeyPair(random.New()); sig,_ := sch.Sign(sk, msg)
    run("bls.Verify gnark/G1", sig, 300, func(in []byte){ sch.Verify(pk, msg, in) })
    sch2 := bls.NewSchemeOnG2(gs); sk2, pk2 := sch2.NewKeyPair(random.New()); sig2,_ := sch2.Sign(sk2, msg)
    run("bls.Verify gnark/G2", sig2, 300, func(in []byte){ sch2.Verify(pk2, msg, in) })
  }
  { // cosi
    n := 3; var priv []kyber.Scalar; var pubs []kyber.Point
    for i:=0;i<n;i++{ x := ed.Scalar().Pick(random.New()); priv = append(priv,x); pubs = append(pubs, ed.Point().Mul(x,nil)) }
    var vs []kyber.Scalar; var Vs []kyber.Point; var masks [][]byte
    for i:=0;i<n;i++{ v, V := cosi.Commit(ed); vs = append(vs,v); Vs = append(Vs,V); m,_ := cosi.NewMask(ed, pubs, pubs[i]); masks = append(masks, m.Mask()) }
    aggV, aggM, _ := cosi.AggregateCommitments(ed, Vs, masks)
    mask,_ := cosi.NewMask(ed, pubs, nil); mask.SetMask(aggM)
    c,_ := cosi.Challenge(ed, aggV, mask.AggregatePublic, msg)
    var rs []kyber.Scalar
    for i:=0;i<n;i++{ r,_ := cosi.Response(ed, priv[i], vs[i], c); rs = append(rs,r) }
    aggR,_ := cosi.AggregateResponses(ed, rs)
    sig,_ := cosi.Sign(ed, aggV, aggR, mask)
    fmt.Println("cosi honest verify:", cosi.Verify(ed, pubs, msg, sig, nil))
    run("cosi.Verify", sig, 600, func(in []byte){ cosi.Verify(ed, pubs, msg, in, nil) })
  }
  { // proof
    x := ed.Scalar().Pick(random.New()); X := ed.Point().Mul(x,nil)
    pred := proof.Rep("X","x","B")
    prf,_ := proof.HashProve(ed, "t", pred.Prover(ed, map[string]kyber.Scalar{"x":x}, map[string]kyber.Point{"B":ed.Point().Base(),"X":X}, nil))
    run("proof.HashVerify rep", prf, 600, func(in []byte){ proof.HashVerify(ed, "t", proof.Rep("X","x","B").Verifier(ed, map[string]kyber.Point{"B":ed.Point().Base(),"X":X}), in) })
    k := 3; Xs := make([]kyber.Point,k); Ys := make([]kyber.Point,k)
    for i := range Xs { Xs[i] = ed.Point().Pick(random.New()); Ys[i] = ed.Point().Pick(random.New()) }
    H := ed.Point().Pick(random.New())
    xb, yb, prover := shuffle.Shuffle(ed, nil, H, Xs, Ys, random.New())
    sprf, err := proof.HashProve(ed, "s", prover)
    fmt.Println("shuffle prove err", err, "verify:", proof.HashVerify(ed, "s", shuffle.Verifier(ed, nil, H, Xs, Ys, xb, yb), sprf))
    run("proof.HashVerify shuffle", sprf, 400, func(in []byte){ proof.HashVerify(ed, "s", shuffle.Verifier(ed, nil, H, Xs, Ys, xb, yb), in) })
  }
  { // ecies, anon
    x := ed.Scalar().Pick(random.New()); X := ed.Point().Mul(x,nil)
    ct,_ := ecies.Encrypt(ed, X, msg, nil)
    run("ecies.Decrypt ed", ct, 600, func(in []byte){ ecies.Decrypt(ed, x, in, nil) })
    x2 := p2.Scalar().Pick(random.New()); X2 := p2.Point().Mul(x2,nil)
    ct2,_ := ecies.Encrypt(p2, X2, msg, nil)
    run("ecies.Decrypt p256", ct2, 600, func(in []byte){ ecies.Decrypt(p2, x2, in, nil) })
    set := anon.Set{X, ed.Point().Pick(random.New())}
    act,_ := anon.Encrypt(ed, msg, set)
    run("anon.Decrypt", act, 600, func(in []byte){ anon.Decrypt(ed, in, set, 0, x) })
    asig := anon.Sign(ed, msg, set, nil, 0, x)
    run("anon.Verify", asig, 600, func(in []byte){ anon.Verify(ed, msg, set, nil, in) })
    lsig := anon.Sign(ed, msg, set, []byte("scope"), 0, x)
    run("anon.Verify linkable", lsig, 600, func(in []byte){ anon.Verify(ed, msg, set, []byte("scope"), in) })
  }
  { // vss deal unmarshal
    n := 4; var pubs []kyber.Point
    for i:=0;i<n;i++{ pubs = append(pubs, ed.Point().Pick(random.New())) }
    d,_ := vssp.NewDealer(ed, ed.Scalar().Pick(random.New()), ed.Scalar().Pick(random.New()), pubs, 3)
    pd,_ := d.PlaintextDeal(0); pb,_ := pd.Marshal()
    run("vss/pedersen Deal.Unmarshal", pb, 1500, func(in []byte){ var dd vssp.Deal; if err := dd.Unmarshal(in, ed); err == nil { a := vssp.NewEmptyAggregator(ed, pubs); a.VerifyDeal(&dd, true) } })
    dr,_ := vssr.NewDealer(ed, ed.Scalar().Pick(random.New()), ed.Scalar().Pick(random.New()), pubs, 3)
    rd,_ := dr.PlaintextDeal(0); rb,_ := rd.Marshal()
    run("vss/rabin Deal.Unmarshal", rb, 1500, func(in []byte){ var dd vssr.Deal; if err := dd.Unmarshal(in, ed); err == nil { dd.Marshal() } })
  }
}
