package exp
import (
 "testing"
 "fmt"
 "sort"
 "go.dedis.ch/kyber/v4"
 "go.dedis.ch/kyber/v4/group/edwards25519"
 "go.dedis.ch/kyber/v4/share"
 rdkg "go.dedis.ch/kyber/v4/share/dkg/rabin"
 "go.dedis.ch/kyber/v4/util/random"
)
func TestRabinDKG(t *testing.T){
  suite := edwards25519.NewBlakeSHA256Ed25519()
  n, thr := 4, 3
  byz := 3
  var privs []kyber.Scalar; var pubs []kyber.Point
  for i:=0;i<n;i++{ x := suite.Scalar().Pick(random.New()); privs = append(privs,x); pubs = append(pubs, suite.Point().Mul(x,nil)) }
  gens := make([]*rdkg.DistKeyGenerator, n)
  for i:=0;i<n;i++{ g, err := rdkg.NewDistKeyGenerator(suite, privs[i], pubs, uint32(thr)); if err != nil { t.Fatal(err) }; gens[i] = g }
  // deals
  var resps []*rdkg.Response
  for i:=0;i<n;i++{
    deals, err := gens[i].Deals(); if err != nil { t.Fatal(err) }
    for j, d := range deals {
      if i == byz && j == 0 { // corrupt the cipher for node 0
        d.Deal.Cipher[len(d.Deal.Cipher)/2] ^= 0xff
      }
      r, err := gens[j].ProcessDeal(d)
      if err != nil { fmt.Printf("node %d ProcessDeal from %d err: %v\n", j, i, err); continue }
      resps = append(resps, r)
    }
  }
  for _, r := range resps { for i:=0;i<n;i++{ if uint32(i) == r.Response.Index { continue }; cp := *r; rr := *r.Response; cp.Response = &rr; j, err := gens[i].ProcessResponse(&cp); if err != nil { fmt.Printf("node %d ProcessResponse(dealer %d from %d) err: %v\n", i, r.Index, r.Response.Index, err) }; _ = j } }
  for i:=0;i<n;i++{ gens[i].SetTimeout() }
  for i:=0;i<n;i++{ q := gens[i].QUAL(); qi := []int{}; for _, x := range q { qi = append(qi, int(x)) }; sort.Ints(qi); fmt.Printf("node %d certified=%v QUAL=%v\n", i, gens[i].Certified(), qi) }
  // secret commits
  var scs []*rdkg.SecretCommits
  for i:=0;i<n;i++{ sc, err := gens[i].SecretCommits(); if err != nil { fmt.Printf("node %d SecretCommits err %v\n", i, err); continue }; scs = append(scs, sc) }
  for _, sc := range scs { for i:=0;i<n;i++{ if uint32(i) == sc.Index { continue }; cc, err := gens[i].ProcessSecretCommits(sc); if err != nil { fmt.Printf("node %d ProcessSecretCommits(from %d) err: %v\n", i, sc.Index, err) }; if cc != nil { fmt.Printf("node %d complaint commits vs %d\n", i, sc.Index) } } }
  var shares []*share.PriShare
  var keys []kyber.Point
  for i:=0;i<n;i++{ if i == byz { continue }; dks, err := gens[i].DistKeyShare(); if err != nil { fmt.Printf("node %d DistKeyShare err %v\n", i, err); continue }; fmt.Printf("node %d pub=%s finished=%v\n", i, dks.Public().String()[:16], gens[i].Finished()); keys = append(keys, dks.Public()); shares = append(shares, dks.Share); pp := share.NewPubPoly(suite, nil, dks.Commits); if !pp.Check(dks.Share) { fmt.Printf("node %d share NOT on its own poly\n", i) } }
  for i := 1; i < len(keys); i++ { if !keys[i].Equal(keys[0]) { fmt.Println("HONEST NODES DISAGREE ON PUBLIC KEY") ; break } }
}
