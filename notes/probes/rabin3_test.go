package exp
import (
 "testing"
 "fmt"
 "sort"
 "crypto/aes"
 "crypto/cipher"
 "go.dedis.ch/kyber/v4"
 "go.dedis.ch/kyber/v4/group/edwards25519"
 "go.dedis.ch/kyber/v4/share"
 rdkg "go.dedis.ch/kyber/v4/share/dkg/rabin"
 rvss "go.dedis.ch/kyber/v4/share/vss/rabin"
 "go.dedis.ch/kyber/v4/sign/schnorr"
 "go.dedis.ch/kyber/v4/util/random"
 "golang.org/x/crypto/hkdf"
)
func sealRabin(suite *edwards25519.SuiteEd25519, long kyber.Scalar, dealerPub kyber.Point, verifiers []kyber.Point, i int, plaintext []byte) *rvss.EncryptedDeal {
  h := suite.XOF([]byte("vss-dealer")); dealerPub.MarshalTo(h); h.Write([]byte("vss-verifiers")); for _, v := range verifiers { v.MarshalTo(h) }
  ctx := make([]byte, 128); h.Read(ctx)
  dhs := suite.Scalar().Pick(random.New()); dhp := suite.Point().Mul(dhs, nil)
  pb,_ := dhp.MarshalBinary(); sig,_ := schnorr.Sign(suite, long, pb)
  pre := suite.Point().Mul(dhs, verifiers[i]); preb,_ := pre.MarshalBinary()
  rd := hkdf.New(suite.Hash, preb, nil, ctx); key := make([]byte, 32); rd.Read(key)
  blk,_ := aes.NewCipher(key); gcm,_ := cipher.NewGCM(blk)
  return &rvss.EncryptedDeal{DHKey: dhp, Signature: sig, Cipher: gcm.Seal(nil, make([]byte, gcm.NonceSize()), plaintext, ctx)}
}
func TestRabinDKG3(t *testing.T){
  suite := edwards25519.NewBlakeSHA256Ed25519()
  n, thr := 4, 3
  byz := 3
  var privs []kyber.Scalar; var pubs []kyber.Point
  for i:=0;i<n;i++{ x := suite.Scalar().Pick(random.New()); privs = append(privs,x); pubs = append(pubs, suite.Point().Mul(x,nil)) }
  gens := make([]*rdkg.DistKeyGenerator, n)
  for i:=0;i<n;i++{ if i == byz { continue }; g, _ := rdkg.NewDistKeyGenerator(suite, privs[i], pubs, uint32(thr)); gens[i] = g }
  dealer3, _ := rvss.NewDealer(suite, privs[byz], suite.Scalar().Pick(random.New()), pubs, uint32(thr))
  enc3, _ := dealer3.EncryptedDeals()
  pd, _ := dealer3.PlaintextDeal(0)
  bad := *pd; bad.SecShare = &share.PriShare{I: pd.SecShare.I, V: suite.Scalar().Add(pd.SecShare.V, suite.Scalar().One())}
  bb, _ := bad.Marshal()
  enc3[0] = sealRabin(suite, privs[byz], pubs[byz], pubs, 0, bb)
  var resps []*rdkg.Response
  for i:=0;i<n;i++{
    if i == byz { for j := 0; j < n; j++ { if j == byz { continue }; r, err := gens[j].ProcessDeal(&rdkg.Deal{Index: uint32(byz), Deal: enc3[j]}); if err != nil { fmt.Printf("node %d ProcessDeal from %d err: %v\n", j, i, err); continue }; fmt.Printf("node %d response to dealer 3: approved=%v\n", j, r.Response.Approved); resps = append(resps, r) }; continue }
    deals, _ := gens[i].Deals()
    for j, d := range deals { if j == byz { v, _ := rvss.NewVerifier(suite, privs[byz], pubs[i], pubs); vr, err := v.ProcessEncryptedDeal(d.Deal); if err == nil { resps = append(resps, &rdkg.Response{Index: uint32(i), Response: vr}) }; continue }; r, err := gens[j].ProcessDeal(d); if err == nil { resps = append(resps, r) } }
  }
  for _, r := range resps { for i:=0;i<n;i++{ if uint32(i) == r.Response.Index { continue }; rr := *r.Response
      if i == byz { if r.Index == uint32(byz) { dealer3.ProcessResponse(&rr) }; continue }   // byzantine dealer ignores the complaint: no justification
      cp := rdkg.Response{Index: r.Index, Response: &rr}; gens[i].ProcessResponse(&cp) } }
  dealer3.UnsafeSetResponseDKG(uint32(byz), true); dealer3.SetTimeout()
  for i:=0;i<n;i++{ if i != byz { gens[i].SetTimeout() } }
  for i:=0;i<n;i++{ if i == byz { continue }; q := gens[i].QUAL(); qi := []int{}; for _, x := range q { qi = append(qi, int(x)) }; sort.Ints(qi); fmt.Printf("node %d QUAL=%v\n", i, qi) }
  var scs []*rdkg.SecretCommits
  for i:=0;i<n;i++{ if i == byz { continue }; sc, err := gens[i].SecretCommits(); if err == nil { scs = append(scs, sc) } }
  fmt.Println("byz dealer certified own view:", dealer3.DealCertified())
  // the byzantine dealer may not be certified in its own aggregator; craft commits from plaintext knowledge instead
  c3 := dealer3.Commits()
  sc3 := &rdkg.SecretCommits{Index: uint32(byz), Commitments: c3, SessionID: dealer3.SessionID()}
  sc3.Signature, _ = schnorr.Sign(suite, privs[byz], sc3.Hash(suite)); scs = append(scs, sc3)
  for _, sc := range scs { for i:=0;i<n;i++{ if i == byz || uint32(i) == sc.Index { continue }; cc, err := gens[i].ProcessSecretCommits(sc); if err != nil { fmt.Printf("node %d ProcessSecretCommits(from %d) err: %v\n", i, sc.Index, err) }; if cc != nil { fmt.Printf("node %d issues ComplaintCommits vs %d\n", i, sc.Index) } } }
  for i:=0;i<n;i++{ if i == byz { continue }; dks, err := gens[i].DistKeyShare(); if err != nil { fmt.Printf("node %d DistKeyShare err %v\n", i, err); continue }; pp := share.NewPubPoly(suite, nil, dks.Commits); fmt.Printf("node %d finished=%v pub=%s share on poly=%v\n", i, gens[i].Finished(), dks.Public().String()[:16], pp.Check(dks.Share)) }
}
