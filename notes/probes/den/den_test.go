package den
import (
 "testing"
 "fmt"
 "sync"
 "go.dedis.ch/kyber/v4"
 "go.dedis.ch/kyber/v4/group/edwards25519"
 "go.dedis.ch/kyber/v4/proof"
 "go.dedis.ch/kyber/v4/util/random"
)
// clique: barrier-based Step for k participants
type clique struct { mu sync.Mutex; cond *sync.Cond; k int; round int; msgs [][]byte; arrived int; out [][]byte; active []bool }
type member struct { c *clique; i int; seed []byte }
func (m *member) Random() kyber.XOF { return edwards25519.NewBlakeSHA256Ed25519().XOF(m.seed) }
func (m *member) Step(msg []byte) ([][]byte, error) {
  c := m.c; c.mu.Lock(); defer c.mu.Unlock()
  r := c.round
  c.msgs[m.i] = append([]byte{}, msg...); c.arrived++
  if c.arrived == c.nactive() { c.out = make([][]byte, c.k); for i := range c.msgs { c.out[i] = c.msgs[i] }; c.msgs = make([][]byte, c.k); c.arrived = 0; c.round++; c.cond.Broadcast() } else { for c.round == r { c.cond.Wait() } }
  res := make([][]byte, c.k); for i := range c.out { res[i] = c.out[i] }; res[m.i] = msg
  return res, nil
}
func (c *clique) nactive() int { n := 0; for _, a := range c.active { if a { n++ } }; return n }
func (c *clique) leave(i int) { c.mu.Lock(); c.active[i] = false; if c.arrived > 0 && c.arrived == c.nactive() { c.out = make([][]byte, c.k); for j := range c.msgs { c.out[j] = c.msgs[j] }; c.msgs = make([][]byte, c.k); c.arrived = 0; c.round++; c.cond.Broadcast() }; c.mu.Unlock() }
func TestDeniable(t *testing.T){
  suite := edwards25519.NewBlakeSHA256Ed25519()
  for _, k := range []int{2,3,5} { for _, cheat := range []bool{false, true} {
    c := &clique{k: k, msgs: make([][]byte, k), active: make([]bool, k)}; c.cond = sync.NewCond(&c.mu)
    for i := range c.active { c.active[i] = true }
    B := suite.Point().Base(); H := suite.Point().Pick(random.New())
    xs := make([]kyber.Scalar, k); Xs := make([]kyber.Point, k); Ys := make([]kyber.Point, k); Zs := make([]kyber.Point, k)
    for i := range xs { xs[i] = suite.Scalar().Pick(random.New()); Xs[i] = suite.Point().Mul(xs[i], B); Ys[i] = suite.Point().Mul(xs[i], H); Zs[i] = suite.Point().Pick(random.New()) }
    mkpred := func() proof.Predicate { return proof.Or(proof.And(proof.Rep("X","x","B"), proof.Rep("Y","x","H")), proof.Rep("Z","z","B")) }
    results := make([][]error, k)
    var wg sync.WaitGroup
    for i := 0; i < k; i++ { wg.Add(1); go func(i int){ defer wg.Done(); defer c.leave(i)
      pred := mkpred()
      sec := map[string]kyber.Scalar{"x": xs[i]}
      if cheat && i == 0 { sec["x"] = suite.Scalar().Pick(random.New()) }
      pts := map[string]kyber.Point{"B":B,"H":H,"X":Xs[i],"Y":Ys[i],"Z":Zs[i]}
      prover := pred.Prover(suite, sec, pts, map[proof.Predicate]int{pred: 0})
      vrfs := make([]proof.Verifier, k)
      for j := 0; j < k; j++ { if j == i { continue }; vp := mkpred(); vrfs[j] = vp.Verifier(suite, map[string]kyber.Point{"B":B,"H":H,"X":Xs[j],"Y":Ys[j],"Z":Zs[j]}) }
      // note Z differs per prover; verifier j must use prover j's Z: use shared Zs
      results[i] = (func(proof.Context) []error)(proof.DeniableProver(suite, i, prover, vrfs))(&member{c: c, i: i, seed: []byte{byte(i), byte(k)}})
    }(i) }
    wg.Wait()
    fmt.Printf("k=%d cheat=%v results=%v\n", k, cheat, results)
  }}
}
