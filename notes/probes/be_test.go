package exp
import (
 "testing"
 "fmt"
 "math/big"
 "go.dedis.ch/kyber/v4/group/mod"
 "go.dedis.ch/kyber/v4/compatible/compatiblemod"
 "go.dedis.ch/kyber/v4/pairing/bls12381/circl"
)
func TestBE(t *testing.T){
  q, _ := new(big.Int).SetString("7237005577332262213973186563042994240857116359379907606001950938285454250989", 10)
  x := mod.NewInt64(1, compatiblemod.FromBigInt(q))
  fmt.Printf("BigEndian(32,32) of 1 = %x\n", x.BigEndian(32,32))
  fmt.Printf("LittleEndian(32,32) of 1 = %x\n", x.LittleEndian(32,32))
  s := circl.NewSuite()
  for _, l := range []int{96} { b := make([]byte, l); b[0] = 0x00; b[5]=1
    func(){ defer func(){ if r := recover(); r != nil { fmt.Println("circl G2 decode len", l, "PANIC:", r) } }(); fmt.Println("circl G2 err:", s.G2().Point().UnmarshalBinary(b)) }() }
  for _, l := range []int{48} { b := make([]byte, l); b[0] = 0x40
    func(){ defer func(){ if r := recover(); r != nil { fmt.Println("circl G1 decode inf-uncompressed len", l, "PANIC:", r) } }(); fmt.Println("circl G1 err:", s.G1().Point().UnmarshalBinary(b)) }() }
}
