#!/bin/sh
# ./seedauto.sh <Cxx> : validate /tmp/wt/Cxx/_mut/{1,2} (demo location parsed from README) and store under seeded/
ID=$1
for k in 1 2 3 4 5 6 7 8 9 10 11 12 13 14 15 16 17 18; do
  [ -d seeded/$ID-$k ] && continue
  M=/tmp/wt/$ID/_mut/$k
  [ -f $M/patch.diff ] || continue
  L=$(grep -ho "go test[^\`]*-run[ =]*[^ \`]* *\./[A-Za-z0-9_/.-]*" $M/README.md | head -1)
  PAT=$(echo "$L" | sed -E "s/.*-run[ =]*'?\"?([^ '\"]*).*/\1/")
  PKG=$(echo "$L" | sed -E 's|.* \./([A-Za-z0-9_/.-]*)/?$|\1|; s|/$||; s|/\.\.\.$||')
  echo "== $ID-$k pkg=$PKG pat=$PAT"
  ./seedcheck.sh $ID-$k $M "$PKG" "$PAT" $ID
done
